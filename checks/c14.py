"""C14 -- join-stage accelerations never change the result.

System: join_pmappings(pmappings, metrics) -> multi_strategy_join -> join_strategy_2 -> inner
join_pmappings, all real.  Reference: the code's own single exact join
(clean_compress_and_join_pmappings(for_model=True)) with the remaining accelerations off:
lookahead elimination (guarded hook), untracked memories (pmappings made with
can_combine_multiple_runs=True; join-module get_memories_to_track replaced by identity),
reservation combining (_combine_reservations=False).

The simulator owns: failure of dirty rounds (injected into a tape-chosen job of a parallel()
call made while join_strategy_2 is in a non-final round, or at the entry of the inner join for
W=1) which the code swallows and must survive with the exact result; the same failure in the
final round, which must propagate; worker count, completion order, lazy consumption, cache
epochs, copy-vs-share of the compressed groups that all rounds share.
"""
from __future__ import annotations

import copy
import hashlib
import os
import pickle
import random

PROPERTY = "C14"
TIERS = {
    "quick": dict(seeds=320, soft_s=170, hard_s=1500, per_seed_s=900, init_s=600, k=2),
    "thorough": dict(seeds=12800, soft_s=3000, hard_s=5400, per_seed_s=1200, init_s=600, k=4),
}
RULE = ("one evaluation = one staged join_pmappings call (all accelerations on) on the pmappings of a "
        "generated 2-3 Einsum spec under one seeded schedule, compared with one exact join of the same spec "
        "(accelerations off). Non-trivial: the staged join ran >=1 dirty round that actually pruned or "
        "filtered rows (or a fault was injected into a round) and the exact front is non-empty. Distinct: "
        "SHA-1 of (spec, W, delivery orders, fault placement).")
INTERLEAVING_MEASURE = "distinct tuples (call site, n_jobs, completion order) over all parallel() calls of a staged join"
PROBES = ["dirty_round_joined", "dirty_round_skipped_no_pruning", "optimality_filter_rows_dropped",
          "dirty_round_failed_and_swallowed", "final_round_fault_propagated", "threshold_retry",
          "memories_untracked_by_make", "memories_untracked_by_join",
          "unordered_permuted", "w1_runs", "wN_runs", "ru_metric_scenarios", "multi_row_fronts",
          "finite_glb_scenarios", "staged_on_combinable_pmappings", "memory_width_window_scenarios"]
REAL_VS_STUB = {
    "real": ["make_pmappings, compress/decompress, multi_strategy_join, join_strategy_2, join_pmappings, "
             "OptimalityThresholder, prune_with_tolerance, PmappingGroup/PmappingDataframe merges, pareto kernels",
             "cloudpickle round trip of every job and result (W>1)"],
    "stub": ["joblib.Parallel/loky -> SimParallel", "time.time -> virtual clock", "uuid4 -> seeded stream",
             "round tracker: thin wrappers around the join module's prune_with_tolerance / join_pmappings names "
             "(bookkeeping + fault entry point only)"],
}
ASSUMPTIONS = [
    "the exact reference is accelforge's own join with accelerations disabled, not an independent joiner: a bug "
    "shared by both paths is invisible (that is C13, not claimed)",
    "fronts are compared as sets of NON-DOMINATED objective vectors (plus reservation columns when "
    "RESOURCE_USAGE is requested), rel_tol 1e-6: dominated rows that survive in one table but not the other "
    "are not a difference of fronts; representatives among exact ties may legitimately differ",
    "specs are sampled from sim/specgen.py with GlobalBuffer sizes placed around the fused working set",
    "threshold_retry cannot fire on the current tree: PmappingDataframe.update() does not carry "
    "excess_resource_tolerance, so the relaxed capacity never reaches limit_capacity (see DESIGN.md)",
]

_S = {}


def init(ctx):
    import logging
    import sys
    import warnings
    warnings.filterwarnings("ignore")
    logging.disable(logging.WARNING)
    import accelforge as af
    from accelforge.mapper.FFM import main as ffm_main
    from accelforge.mapper.FFM._join_pmappings import join_pmappings as jp
    from accelforge.util._frozenset import oset
    import accelforge.util.parallel  # noqa
    from sim import caches
    _S.update(af=af, ffm=ffm_main, jp=jp, oset=oset, P=sys.modules["accelforge.util.parallel"])
    caches.all_caches(refresh=True)


def gen_scenario(seed, k):
    from sim import specgen
    r = random.Random(seed)
    p = specgen.gen_params(r, want_multi=True)
    p["rf"] = False
    # bias towards finite GlobalBuffer near the fused working set, graded costs
    M, N, n, bits = p["M"], p["N"], p["n_einsums"], p["bits"]
    u = r.random()
    if u < 0.45:
        ws = max((M * N[i] + N[i] * N[i + 1] + M * N[i + 1]) * bits for i in range(n))
        p["glb_size"] = max(bits, round(ws * r.choice([0.4, 0.6, 0.8, 0.9, 1.0, 1.05, 1.2, 1.6, 2.2])))
    elif u < 0.85:
        # join-level capacity binds when the buffer holds roughly one to two tensors: every
        # pmapping fits on its own, a fused combination does not
        tb = max([M * x for x in N] + [N[i] * N[i + 1] for i in range(n)]) * bits
        p["glb_size"] = max(bits, round(tb * r.choice([0.75, 1.0, 1.25, 1.5, 1.75, 2.0, 2.5, 3.0])))
    if r.random() < 0.35:
        p["names"] = r.choice([["DRAM", "DRAMCache", "DRAMCacheL0", "PE"], ["Mem", "Mem2", "Mem2x", "Mem2xALU"]])
    if r.random() < 0.6:
        p["main_energy"] = r.choice([50, 100, 200])
    runs = []
    for _ in range(k):
        runs.append({
            "W": r.choice([1, 2, 2, 3, 4, 8, 16]),
            "order_mode": r.choice(["durations"] * 5 + ["reverse", "rotate", "fifo"]),
            "exec_shuffle": r.random() < 0.3,
            "cache_mode": r.choice(["keep", "epochs"]),
            "clock_jumpy": r.random() < 0.3,
            "uuid_seed": r.getrandbits(32),
            "p_nonzero": r.choice([1.0, 1.0, 0.5]),
            "tape_seed": r.getrandbits(48),
            "fault": r.choice([None, None, None, "dirty", "dirty", "final"]),
            "fault_pos": r.randrange(0, 1000),
            "fault_kind": r.choice(["exception", "worker_death", "memory"]),
            # the public two-stage API also allows joining pmappings made with
            # can_combine_multiple_runs=True (every memory tracked by the make stage, so the join
            # stage's own memory skipping has real work to do)
            "staged_input": r.choice(["normal", "normal", "combinable"]),
        })
    sc = {"params": p, "runs": runs, "aux_seed": r.getrandbits(32)}
    # (drawn last, so that everything above is what it was before this regime existed)
    # Memory-specific value width: the GlobalBuffer stores values wider than the workload declares
    # them, and its size lies between "all tensors fit at the workload's width" and "all tensors
    # fit at the memory's width".  Only the per-memory width keeps such a memory tracked.
    if r.random() < 0.25:
        ratio = r.choice([2, 4, 4])
        p["glb_bits"] = bits * ratio
        total = sum(M * N[i] + N[i] * N[i + 1] + M * N[i + 1] for i in range(n)) * bits
        p["glb_size"] = max(bits, round(total * r.choice([1.0, 1.05, 1.2, 1.4, 1.7, 1.95])))
        p["bpv_window"] = True
        if "RESOURCE_USAGE" in p["metrics"] and r.random() < 0.7:
            p["metrics"] = r.choice([["ENERGY"], ["ENERGY", "LATENCY"], ["ENERGY_DELAY_PRODUCT"]])
        if r.random() < 0.7:
            for run in runs:
                run["staged_input"] = "normal"
    return sc


# ------------------------------------------------------------------ fronts
def obj_set(mappings, metric_names):
    from sim import canon
    f = canon.front_of(mappings, metric_names, with_structure=False)
    return f["objective_columns"], sorted({tuple(r["obj"]) for r in f["rows"]})


def _close(a, b):
    import math
    if isinstance(a, str) or isinstance(b, str):
        return a == b
    if math.isinf(a) or math.isinf(b):
        return a == b
    return math.isclose(a, b, rel_tol=1e-6, abs_tol=1e-12)


def _nondominated(points):
    """Points not dominated by another point (minimisation in every coordinate; coordinates
    within rel_tol 1e-6 count as equal)."""
    def dominates(x, y):
        if len(x) != len(y):
            return False
        strictly = False
        for p, q in zip(x, y):
            if isinstance(p, str) or isinstance(q, str):
                if p != q:
                    return False
                continue
            if _close(p, q):
                continue
            if p < q:
                strictly = True
            else:
                return False
        return strictly
    return [y for y in points if not any(dominates(x, y) for x in points)]


def compare_sets(exact, staged):
    ca, a = exact
    cb, b = staged
    if ca != cb:
        # reservation columns can differ when a memory is untracked; compare on the common prefix of
        # Total columns only if RESOURCE_USAGE is not requested (then there are none)
        return f"objective columns differ: exact {ca} staged {cb}"
    # The property is about the Pareto front.  Both joins can return tables that still hold
    # dominated rows (same energy and latency, larger reservation; seen with RESOURCE_USAGE), and
    # the optimality filter of the staged join is *designed* to drop rows dominated by an already
    # found solution.  Reduce both tables to their non-dominated points first.
    a, b = _nondominated(a), _nondominated(b)
    # Mutual coverage within the stated tolerance: the staged table can hold several rows whose
    # objective vectors differ only by float32/float64 rounding (~1e-8 relative); those are one
    # point of the front, so the comparison is between sets of points, not row counts.
    def covered(x, pool):
        return any(len(x) == len(y) and all(_close(p, q) for p, q in zip(x, y)) for y in pool)
    missing = [x for x in a if not covered(x, b)]
    extra = [y for y in b if not covered(y, a)]
    if missing or extra:
        return (f"objective vectors only in the exact front: {missing[:4]}; only in the staged front: "
                f"{extra[:4]} (exact has {len(a)}, staged has {len(b)} distinct vectors)")
    return None


# ------------------------------------------------------------------ instrumented joins
class RoundTracker:
    """Wraps the join module's names to know which round is running; optionally injects a
    failure at the entry of the inner join of a dirty / the final round (W=1 path)."""

    def __init__(self):
        self.jp = _S["jp"]
        self.state = {"round": None, "dirty": None, "rounds": [], "fault_fired": None}
        self.entry_fault = None  # "dirty" | "final" | None
        self.fault_kind = "exception"
        self.counters = {}

    def bump(self, k, n=1):
        if n:
            self.counters[k] = self.counters.get(k, 0) + n

    def __enter__(self):
        jp = self.jp
        self._orig = (jp.prune_with_tolerance, jp.join_pmappings, jp.get_memories_to_track,
                      jp.OptimalityThresholder.__call__)
        tr = self
        orig_prune, orig_join, orig_track, orig_thr = self._orig

        def prune_with_tolerance(pmappings, objective_tolerance, resource_usage_tolerance,
                                 print_progress=True, is_last=False):
            tr.state["dirty"] = not is_last
            tr.state["round"] = (objective_tolerance, resource_usage_tolerance, is_last)
            tr.state["rounds"].append(tr.state["round"])
            out = orig_prune(pmappings, objective_tolerance=objective_tolerance,
                             resource_usage_tolerance=resource_usage_tolerance,
                             print_progress=print_progress, is_last=is_last)
            if out is None:
                tr.bump("dirty_round_skipped_no_pruning")
            return out

        def join_pmappings(*a, **kw):
            from sim.executor import make_fault
            if tr.entry_fault is not None and tr.state["fault_fired"] is None:
                want_dirty = tr.entry_fault == "dirty"
                if tr.state["dirty"] is not None and bool(tr.state["dirty"]) == want_dirty:
                    tr.state["fault_fired"] = ("entry", tr.state["round"])
                    raise make_fault(tr.fault_kind, f"inner join failed in round {tr.state['round']}")
            dirty = tr.state["dirty"]
            out = orig_join(*a, **kw)
            if dirty:
                tr.bump("dirty_round_joined")
            return out

        def get_memories_to_track(pmapping_groups, print_progress=True):
            out = orig_track(pmapping_groups, print_progress)
            if out[1]:
                tr.bump("memories_untracked_by_join")
            return out

        def thr_call(self_thr, mapping):
            out = orig_thr(self_thr, mapping)
            try:
                tr.bump("optimality_filter_rows_dropped", int(len(out) - int(out.sum())))
            except Exception:
                pass
            return out

        jp.prune_with_tolerance = prune_with_tolerance
        jp.join_pmappings = join_pmappings
        jp.get_memories_to_track = get_memories_to_track
        jp.OptimalityThresholder.__call__ = thr_call
        return self

    def __exit__(self, *exc):
        jp = self.jp
        (jp.prune_with_tolerance, jp.join_pmappings, jp.get_memories_to_track,
         jp.OptimalityThresholder.__call__) = self._orig
        return False


class ExactMode:
    """Accelerations off for the reference join."""

    def __enter__(self):
        jp = _S["jp"]
        oset = _S["oset"]
        self._orig = jp.get_memories_to_track
        jp.get_memories_to_track = lambda pmapping_groups, print_progress=True: (pmapping_groups, oset())
        self._env = os.environ.get("ACCELFORGE_VERIF_NO_LOOKAHEAD")
        os.environ["ACCELFORGE_VERIF_NO_LOOKAHEAD"] = "1"
        return self

    def __exit__(self, *exc):
        _S["jp"].get_memories_to_track = self._orig
        if self._env is None:
            os.environ.pop("ACCELFORGE_VERIF_NO_LOOKAHEAD", None)
        else:
            os.environ["ACCELFORGE_VERIF_NO_LOOKAHEAD"] = self._env
        return False


def make_inputs(params, workdir):
    """pmappings for the staged join (normal) and for the exact join (everything tracked), made
    under the null schedule.  Returned pickled so every run gets a private copy."""
    from sim import specgen, caches, clock as clk
    from sim.tape import Tape
    P, ffm = _S["P"], _S["ffm"]
    spec = specgen.build_spec(params, workdir)
    caches.clear_all()
    P.set_n_parallel_jobs(1)
    try:
        with clk.patched(clk.VirtualClock(Tape(replay=[]), jumpy=False), clk.UuidStream(0)):
            pm_staged = ffm.make_pmappings(spec, print_progress=False)
            pm_exact = ffm.make_pmappings(spec, print_progress=False, can_combine_multiple_runs=True)
    finally:
        P.set_n_parallel_jobs(os.cpu_count())
    info = {}
    try:
        j0 = next(iter(next(iter(pm_staged.einsum2jobs.values()))))
        j1 = next(iter(next(iter(pm_exact.einsum2jobs.values()))))
        info["memories_untracked_by_make"] = int(len(list(j0.memories_track_all)) < len(list(j1.memories_track_all)))
    except Exception:
        pass
    return pickle.dumps(pm_staged), pickle.dumps(pm_exact), spec, info


def exact_join(pm_exact_bytes, params):
    from sim import caches, clock as clk
    from sim.tape import Tape
    jp, P = _S["jp"], _S["P"]
    pm = pickle.loads(pm_exact_bytes)
    pm.spec.mapper._combine_reservations = False
    caches.clear_all()
    P.set_n_parallel_jobs(1)
    try:
        with ExactMode(), clk.patched(clk.VirtualClock(Tape(replay=[]), jumpy=False), clk.UuidStream(0)):
            m = jp.clean_compress_and_join_pmappings(
                pmappings=pm, metrics=pm.spec.mapper.metrics, for_model=True,
                require_all_einsums=False, print_progress=False)
    finally:
        P.set_n_parallel_jobs(os.cpu_count())
    return obj_set(m, params["metrics"]), len(m.data)


def staged_join(pm_bytes, params, cfg, tape):
    """Returns (front or None, error or None, sim, tracker)."""
    from sim import caches, clock as clk, executor as ex
    ffm, P = _S["ffm"], _S["P"]
    pm = pickle.loads(pm_bytes)
    counters = {}
    if cfg["cache_mode"] == "epochs":
        caches.clear_all()
    tr = RoundTracker()
    fault = cfg.get("fault")

    def on_start(sim, rec, i):
        if cfg["cache_mode"] == "epochs" and sim.tape.coin(1, 4, "epoch"):
            caches.clear_all()
            sim.tape.log("epoch", rec.index, i)

    seen = {"n": 0}

    def job_fault(sim, rec, i):
        if fault is None or tr.state["fault_fired"] is not None:
            return None
        if tr.state["dirty"] is None:
            return None  # compress stage etc.: outside any round
        if bool(tr.state["dirty"]) != (fault == "dirty"):
            return None
        seen["n"] += 1
        if seen["n"] - 1 == cfg["fault_pos"] % 5:
            tr.state["fault_fired"] = ("job", rec.site, i, tr.state["round"])
            return ex.make_fault(cfg.get("fault_kind", "exception"),
                                 f"job {i} of {rec.site} in round {tr.state['round']}")
        return None

    tr.fault_kind = cfg.get("fault_kind", "exception")
    if fault is not None and cfg["W"] == 1:
        tr.entry_fault = fault
    vc = clk.VirtualClock(tape, jumpy=cfg["clock_jumpy"])
    sim = ex.Sim(tape, W=cfg["W"], order_mode=cfg["order_mode"], exec_shuffle=cfg["exec_shuffle"],
                 clock=vc, on_job_start=on_start, job_fault=job_fault if cfg["W"] > 1 else None)
    P.set_n_parallel_jobs(cfg["W"])
    front, err = None, None
    try:
        with tr, clk.patched(vc, clk.UuidStream(cfg["uuid_seed"])), ex.install(sim):
            m = ffm.join_pmappings(pm, metrics=pm.spec.mapper.metrics, require_all_einsums=False,
                                   print_progress=False)
        front = obj_set(m, params["metrics"])
    except Exception as e:
        err = e
    finally:
        P.set_n_parallel_jobs(os.cpu_count())
    n_thresholds = len({r[1] for r in tr.state["rounds"]})
    if n_thresholds > 1:
        tr.bump("threshold_retry", n_thresholds - 1)
    return front, err, sim, tr


def check_run(exact, pm_bytes, params, cfg, tape):
    """-> (classes {class: detail}, sim, tracker, fault_fired)"""
    if isinstance(pm_bytes, dict):
        pm_bytes = pm_bytes[cfg.get("staged_input", "normal")]
    front, err, sim, tr = staged_join(pm_bytes, params, cfg, tape)
    fired = tr.state["fault_fired"]
    classes = {}
    if fired is None:
        if err is not None:
            classes["exception"] = (f"staged join raised {type(err).__name__}: {str(err)[:300]} while the exact "
                                    f"join returned {len(exact[1])} objective vectors")
        else:
            d = compare_sets(exact, front)
            if d:
                classes["front"] = d
    else:
        # C14 is about the front that is *returned*.  After an injected failure the join may raise
        # (any round) or carry on (dirty rounds are designed to); whenever it returns a front, that
        # front must be the exact one.  Which of the two happened is recorded, not judged.
        was_dirty = cfg["fault"] == "dirty"
        if err is not None:
            tr.bump("dirty_round_fault_escaped" if was_dirty else "final_round_fault_propagated")
        else:
            tr.bump("dirty_round_failed_and_swallowed" if was_dirty else "final_round_fault_swallowed")
            d = compare_sets(exact, front)
            if d:
                cls = "front_after_dirty_fault" if was_dirty else "front_after_final_fault"
                classes[cls] = f"after an injected failure ({fired}) the join returned a front, and: {d}"
    return classes, sim, tr, fired


def exec_prefix(exact, pm_bytes, params, sc, last_tape_values):
    """History matters (process caches): replay the runs before the failing one, then it."""
    from sim import common
    for cfg in sc["runs"][:-1]:
        check_run(exact, pm_bytes, params, cfg, _mk_tape(cfg))
        common.purge_scratch()
    cfg = sc["runs"][-1]
    t = _mk_tape(cfg, replay=last_tape_values)
    cl, sim, tr, fired = check_run(exact, pm_bytes, params, cfg, t)
    common.purge_scratch()
    return cl, sim, tr, fired, t


def _mk_tape(cfg, replay=None):
    from sim.tape import Tape
    if replay is not None:
        return Tape(replay=replay)
    return Tape(seed=cfg["tape_seed"], p_nonzero=cfg["p_nonzero"])


def run_seed(seed, ctx):
    from sim import common
    from sim.minimize import minimize
    workdir = common.scratch_root()
    k = int(ctx["cfg"].get("k", 2))
    sc = gen_scenario(seed, k)
    params = sc["params"]
    res = {"evals": 0, "keys": [], "interleavings": [], "stats": {}, "sim_seconds": 0.0,
           "violations": [], "events_sha": None}
    st = res["stats"]

    def bump(d):
        for kk, v in d.items():
            if v:
                st[kk] = st.get(kk, 0) + v
    try:
        pm_bytes, pm_exact_bytes, spec, info = make_inputs(params, workdir)
        exact, n_rows = exact_join(pm_exact_bytes, params)
        pm_bytes = {"normal": pm_bytes, "combinable": pm_exact_bytes}
    except Exception as e:
        bump({"ref_error_scenarios": 1})
        res["events_sha"] = "ref_error:" + type(e).__name__
        common.purge_scratch()
        return res
    common.purge_scratch()
    bump(info)
    bump({"ru_metric_scenarios": int("RESOURCE_USAGE" in params["metrics"]),
          "multi_row_fronts": int(len(exact[1]) > 1),
          "finite_glb_scenarios": int(params["glb_size"] != "inf"),
          "memory_width_window_scenarios": int(bool(params.get("bpv_window")))})
    shas = [hashlib.sha1(repr(exact).encode()).hexdigest()]
    for cfg in sc["runs"]:
        tape = _mk_tape(cfg)
        classes, sim, tr, fired = check_run(exact, pm_bytes, params, cfg, tape)
        common.purge_scratch()
        res["evals"] += 1
        res["sim_seconds"] += sim.now
        bump({kk: v for kk, v in sim.stats.items() if kk != "pickled_bytes"})
        bump(tr.counters)
        bump({"w1_runs": int(cfg["W"] == 1), "wN_runs": int(cfg["W"] > 1),
              "staged_on_combinable_pmappings": int(cfg.get("staged_input") == "combinable")})
        shas.append(tape.event_digest())
        sig = sim.delivery_signature()
        res["interleavings"].append(hashlib.sha1(repr(sig).encode()).hexdigest()[:16])
        nontrivial = len(exact[1]) > 0 and (tr.counters.get("dirty_round_joined", 0) > 0 or fired is not None)
        if nontrivial:
            res["keys"].append(hashlib.sha1(repr((params, cfg["W"], sig, fired)).encode()).hexdigest()[:16])
        if classes and not res["violations"]:
            vclass, detail = next(iter(classes.items()))

            def runner(sc2, tv):
                cl, _, _, _, t = exec_prefix(exact, pm_bytes, params, sc2, tv)
                return set(cl), t.values()

            jj = sc["runs"].index(cfg)
            msc, mtv, nruns = minimize(dict(sc, runs=sc["runs"][:jj + 1]), tape.values(), runner, vclass,
                                       _simplify, max_runs=40,
                                       max_s=float(ctx["cfg"].get("minimize_s", 90)), group_by_site=True)
            cfgm = msc["runs"][-1]
            cl, simm, trm, firedm, t = exec_prefix(exact, pm_bytes, params, msc, mtv)
            key = f"{vclass}|W={'1' if cfgm['W'] == 1 else 'N'}|fault={cfgm.get('fault')}"
            res["violations"].append({
                "class": vclass, "key": key, "detail": cl.get(vclass, detail) +
                f" [rounds: {trm.state['rounds']}; W={cfgm['W']}; fault: {firedm}; runs replayed before "
                f"it: {len(msc['runs']) - 1}]",
                "replay": {"scenario": msc, "tape": mtv, "events_sha": t.event_digest(),
                           "minimize_runs": nruns}})
    res["events_sha"] = hashlib.sha1("".join(shas).encode()).hexdigest()
    if seed % 5 == 0 or ctx.get("want_sample"):
        res["sample"] = {"seed": seed, "spec_params": params, "exact_front": [list(x) for x in exact[1]][:5],
                         "exact_rows": n_rows,
                         "runs": [{kk: c[kk] for kk in ("W", "order_mode", "cache_mode", "fault")}
                                  for c in sc["runs"]]}
    return res


def _simplify(sc):
    runs = sc["runs"]
    if len(runs) > 1:
        yield dict(sc, runs=runs[-1:])
        for i in range(len(runs) - 1):
            yield dict(sc, runs=runs[:i] + runs[i + 1:])
    cfg = runs[-1]

    def w(**kw):
        return dict(sc, runs=runs[:-1] + [dict(cfg, **kw)])
    if cfg.get("fault"):
        yield w(fault=None)
    if cfg.get("staged_input") == "combinable":
        yield w(staged_input="normal")
    if cfg["clock_jumpy"]:
        yield w(clock_jumpy=False)
    if cfg["cache_mode"] != "keep":
        yield w(cache_mode="keep")
    if cfg["exec_shuffle"]:
        yield w(exec_shuffle=False)
    if cfg["order_mode"] != "fifo":
        yield w(order_mode="fifo")
    if cfg["W"] > 2:
        yield w(W=2)
    if cfg["W"] > 1:
        yield w(W=1)


def replay(rp, ctx):
    from sim import common
    workdir = common.scratch_root()
    sc = rp["scenario"]
    params = sc["params"]
    pm_bytes, pm_exact_bytes, spec, info = make_inputs(params, workdir)
    exact, _ = exact_join(pm_exact_bytes, params)
    pm_bytes = {"normal": pm_bytes, "combinable": pm_exact_bytes}
    classes, sim, tr, fired, t = exec_prefix(exact, pm_bytes, params, sc, rp["tape"])
    return {"violations": [{"class": c, "key": c, "detail": d} for c, d in classes.items()],
            "events_sha": t.event_digest()}
