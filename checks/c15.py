"""C15 -- compressing pmapping tables for joining loses no per-row detail.

System: compress_einsum2pmappings -> (harness plays the joiner) -> decompress_pmappings,
real code, under SimParallel (arrival order of the per-Einsum compress jobs, W=1 shared
objects vs W>1 copies, compress twice on the same input).  Reference model: a dict from
the unique cell values planted by the generator to (einsum, group, row).
"""
from __future__ import annotations

import hashlib
import math
import random

PROPERTY = "C15"
TIERS = {
    "quick": dict(seeds=14400, soft_s=150, hard_s=420, per_seed_s=120, init_s=300),
    "thorough": dict(seeds=640000, soft_s=1500, hard_s=2400, per_seed_s=120, init_s=300),
}
RULE = ("one evaluation = one compress -> select -> decompress round trip on generated tables: 1-4 Einsums x "
        "1-6 PmappingGroups x 0-40 rows, random joining columns (Total<SEP>*, reservation<SEP>*, tensor<SEP>*) "
        "and per-Einsum non-joining columns (action/energy/latency/mapping) whose cells are unique per "
        "(einsum, group, row, column), column sets differing between groups; the harness-as-joiner selects, "
        "per result row and Einsum, one compressed index (patterns: single group, first/last row of each "
        "group, group boundaries, random, repeated). Non-trivial: >=2 groups in some Einsum and >=2 result "
        "rows drawn from >=2 different groups. Distinct: SHA-1 of (table shapes, column sets, selection, W, "
        "arrival order, compress-twice).")
INTERLEAVING_MEASURE = "distinct (W, arrival order of compress jobs, lazy flag, compress-twice flag) tuples"
PROBES = ["unordered_permuted", "w1_shared_mode", "wN_copy_mode", "compress_twice", "second_decompress", "zero_row_group",
          "boundary_selection", "repeated_rows", "mixed_column_sets", "multi_einsum", "lazy_calls",
          "real_table_runs", "real_table_groups", "real_table_rows", "big_table_runs"]
REAL_EVERY = 96  # every REAL_EVERY-th seed uses real pmapping tables from make_pmappings
BIG_EVERY = 128   # every BIG_EVERY-th seed uses tables whose row totals cross 2**8 / 2**15 / 2**16
REAL_VS_STUB = {
    "real": ["compress_einsum2pmappings/_compress_pmapping_list/_compress", "decompress_pmappings",
             "PmappingGroup, PmappingDataframe, Compatibility, pandas merge/concat",
             "accelforge.util.parallel.parallel", "cloudpickle round trip of jobs/results when W>1"],
    "stub": ["joblib.Parallel -> SimParallel", "the joiner (harness builds the joined index table itself)"],
}
ASSUMPTIONS = [
    "the joiner is replaced by the harness: it may pick any compressed index of any Einsum for any result "
    "row, which over-approximates what the real joiner produces (every Einsum present, >=1 result row)",
    "non-joining column names are prefixed with their Einsum name, as the mapper produces them",
]

_S = {}


def init(ctx):
    import logging
    import warnings
    warnings.filterwarnings("ignore")
    logging.disable(logging.WARNING)
    import pandas as pd
    import numpy as np
    from accelforge.mapper.FFM._join_pmappings import compress_pmappings as cp
    from accelforge.mapper.FFM._join_pmappings.pmapping_group import PmappingGroup
    from accelforge.mapper.FFM._join_pmappings.pmapping_dataframe import PmappingDataframe
    from accelforge.mapper.FFM._join_pmappings.compatibility import Compatibility
    from accelforge.util._frozenset import fzs, oset
    import accelforge.util.parallel  # noqa
    import sys
    _S.update(pd=pd, np=np, cp=cp, PmappingGroup=PmappingGroup, PmappingDataframe=PmappingDataframe,
              Compatibility=Compatibility, fzs=fzs, oset=oset, P=sys.modules["accelforge.util.parallel"])


JOIN_COLS = ["Total<SEP>energy", "Total<SEP>latency", "reservation<SEP>GLB<SEP>0<SEP>right",
             "reservation<SEP>GLB<SEP>1<SEP>left", "reservation<SEP>RF<SEP>0<SEP>right", "tensor<SEP>T1",
             "Total<SEP>mapping"]
NONJOIN_SUFFIX = ["energy<SEP>GLB<SEP>read", "energy<SEP>MAC<SEP>compute", "action<SEP>GLB<SEP>T0<SEP>read",
                  "latency<SEP>MAC", "mapping", "usage<SEP>memory<SEP>GLB<SEP>T0", "tile_shape<SEP>0"]


def gen_scenario(seed):
    r = random.Random(seed)
    n_e = r.choice([1, 2, 2, 3, 3, 4])
    einsums = []
    for e in range(n_e):
        n_g = r.choice([1, 1, 2, 2, 3, 4, 6])
        pool = r.sample(NONJOIN_SUFFIX, r.randint(1, len(NONJOIN_SUFFIX)))
        jpool = r.sample(JOIN_COLS, r.randint(1, len(JOIN_COLS)))
        mixed = r.random() < 0.5
        groups = []
        for g in range(n_g):
            rows = r.choice([0, 1, 1, 2, 3, 5, 8, 13, 40]) if r.random() < 0.8 else r.randint(0, 40)
            if mixed:
                nj = r.sample(pool, r.randint(1, len(pool)))
                jc = r.sample(jpool, r.randint(1, len(jpool)))
            else:
                nj, jc = list(pool), list(jpool)
            if r.random() < 0.5:
                r.shuffle(nj)
            groups.append({"rows": rows, "nonjoin": nj, "join": jc,
                           "index_kind": r.choice(["range", "range", "shifted", "shuffled"])})
        einsums.append({"name": f"E{e}" if r.random() < 0.8 else f"Einsum_{chr(90 - e)}", "groups": groups})
    if r.random() < 0.3:
        r.shuffle(einsums)
    sc = {
        "einsums": einsums,
        "W": r.choice([1, 2, 2, 3, 4, 8, 16]),
        "order_mode": r.choice(["durations"] * 4 + ["reverse", "rotate", "fifo"]),
        "compress_twice": r.random() < 0.25,
        "n_result": r.choice([1, 2, 3, 5, 8, 20]),
        "pattern": r.choice(["random", "random", "single_group", "first_last", "boundaries", "repeated"]),
        "sel_seed": r.getrandbits(32),
        "tape_seed": r.getrandbits(48),
    }
    # drawn last: history of two decompressions (two selection patterns) from one compression
    sc["decompress_again"] = r.random() < 0.25
    sc["pattern2"] = r.choice(["random", "single_group", "first_last", "repeated"])
    return sc


def simplify(sc):
    es = sc["einsums"]
    if len(es) > 1:
        for i in range(len(es)):
            yield dict(sc, einsums=es[:i] + es[i + 1:])
    for i, e in enumerate(es):
        gs = e["groups"]
        if len(gs) > 1:
            for j in range(len(gs)):
                yield dict(sc, einsums=es[:i] + [dict(e, groups=gs[:j] + gs[j + 1:])] + es[i + 1:])
        for j, g in enumerate(gs):
            for rows in sorted({0, 1, 2, g["rows"] // 2}):
                if rows < g["rows"]:
                    yield dict(sc, einsums=es[:i] + [dict(e, groups=gs[:j] + [dict(g, rows=rows)] + gs[j + 1:])] + es[i + 1:])
            if len(g["nonjoin"]) > 1:
                yield dict(sc, einsums=es[:i] + [dict(e, groups=gs[:j] + [dict(g, nonjoin=g["nonjoin"][:1])] + gs[j + 1:])] + es[i + 1:])
            if len(g["join"]) > 1:
                yield dict(sc, einsums=es[:i] + [dict(e, groups=gs[:j] + [dict(g, join=g["join"][:1])] + gs[j + 1:])] + es[i + 1:])
            if g["index_kind"] != "range":
                yield dict(sc, einsums=es[:i] + [dict(e, groups=gs[:j] + [dict(g, index_kind="range")] + gs[j + 1:])] + es[i + 1:])
    if sc["n_result"] > 1:
        yield dict(sc, n_result=max(1, sc["n_result"] // 2))
        yield dict(sc, n_result=sc["n_result"] - 1)
    if sc["compress_twice"]:
        yield dict(sc, compress_twice=False)
    if sc.get("decompress_again"):
        yield dict(sc, decompress_again=False)
    if sc["W"] not in (1, 2):
        yield dict(sc, W=2)
    if sc["pattern"] != "random":
        yield dict(sc, pattern="random")


def _build(sc):
    """Tables with unique cells.  Returns (einsum2groups, truth) where
    truth[einsum][(g, row)] = {col: value} for non-joining and joining cells."""
    pd, np = _S["pd"], _S["np"]
    counter = [1000]

    def uniq(col):
        counter[0] += 1
        v = counter[0]
        if col.endswith("mapping"):
            return f"map#{v}"
        if "latency" in col:
            return v + 0.5  # exactly representable in float32 up to 2**23
        return v

    e2g, truth = {}, {}
    for e in sc["einsums"]:
        name = e["name"]
        groups, tr = [], {}
        for gi, g in enumerate(e["groups"]):
            n = g["rows"]
            cols = {}
            for c in g["join"]:
                cols[c] = [uniq(c) for _ in range(n)]
            for c in g["nonjoin"]:
                cols[f"{name}<SEP>{c}"] = [uniq(c) for _ in range(n)]
            df = pd.DataFrame(cols)
            if n == 0:
                df = pd.DataFrame({c: pd.Series([], dtype=object if c.endswith("mapping") else "float64")
                                   for c in cols})
            if g["index_kind"] == "shifted":
                df.index = df.index + 7
            elif g["index_kind"] == "shuffled" and n > 1:
                idx = list(range(n))
                random.Random(n * 31 + gi).shuffle(idx)
                df.index = idx
            for ri in range(n):
                tr[(gi, ri)] = {c: cols[c][ri] for c in cols}
            pm = _S["PmappingDataframe"](df, n_total_pmappings=max(n, 1), n_valid_pmappings=max(n, 1),
                                         ignored_resources=set(), drop_valid_reservations=False,
                                         skip_pareto=True)
            groups.append(_S["PmappingGroup"](_S["Compatibility"](tensors=_S["fzs"]()), pm))
        e2g[name] = groups
        truth[name] = tr
    return e2g, truth


def _eq(a, b):
    if isinstance(a, str) or isinstance(b, str):
        return a == b
    try:
        return float(a) == float(b)
    except (TypeError, ValueError):
        return a == b


def _isnull(v):
    if v is None:
        return True
    try:
        return isinstance(v, float) and math.isnan(v) or bool(_S["pd"].isna(v))
    except (TypeError, ValueError):
        return False


def execute(sc, tape):
    from sim import executor as ex
    pd, cp, P = _S["pd"], _S["cp"], _S["P"]
    COMP = "compressed_index"
    viols = []
    info = {"probes": {}}

    pass_no = 0

    def bad(cls, detail):
        if pass_no:
            detail = "[second decompress from the same DecompressData] " + detail
        viols.append({"class": cls, "key": cls, "detail": detail})

    e2g, truth = _build(sc)
    names = [e["name"] for e in sc["einsums"]]
    sim = ex.Sim(tape, W=sc["W"], order_mode=sc["order_mode"])
    info["sim"] = sim
    P.set_n_parallel_jobs(sc["W"])
    try:
        with ex.install(sim):
            try:
                compressed, dd = cp.compress_einsum2pmappings(e2g, print_progress=False)
                if sc["compress_twice"]:
                    # history: same input compressed again (indices re-based a second time)
                    compressed, dd = cp.compress_einsum2pmappings(e2g, print_progress=False)
            except Exception as e:
                bad("compress_exception", f"{type(e).__name__}: {str(e)[:300]}")
                return viols, info
    finally:
        import os
        P.set_n_parallel_jobs(os.cpu_count())

    # ---- compressed side
    if list(compressed.keys()) != names or list(dd.data.keys()) != names:
        # the *order* of the returned dicts matters to the joiner (judged under C20), not to C15
        info["probes"]["key_order_differs"] = 1
    if set(compressed.keys()) != set(names) or set(dd.data.keys()) != set(names):
        bad("einsum_missing", f"compressed keys {list(compressed.keys())} / decompress keys "
            f"{list(dd.data.keys())} are not the input Einsums {names}")
        return viols, info
    index_of = {}  # einsum -> {(g,row): compressed index}
    for e in sc["einsums"]:
        name = e["name"]
        col = f"{name}<SEP>{COMP}"
        seen = {}
        cg = compressed[name]
        if len(cg) != len(e["groups"]):
            bad("group_count", f"{name}: {len(cg)} compressed groups for {len(e['groups'])} input groups")
            return viols, info
        for gi, (g, grp) in enumerate(zip(e["groups"], cg)):
            df = grp.mappings.data
            if len(df) != g["rows"]:
                bad("row_count", f"{name} group {gi}: {len(df)} compressed rows, {g['rows']} source rows")
                return viols, info
            if col not in df.columns:
                bad("no_index_col", f"{name} group {gi}: column {col} missing")
                return viols, info
            extra = [c for c in df.columns if c != col and c not in g["join"]]
            if extra:
                info["probes"]["nonjoin_col_kept"] = 1  # wasteful, but loses nothing
            for ri in range(g["rows"]):
                ci = int(df[col].iloc[ri])
                if ci in seen:
                    bad("index_not_unique", f"{name}: compressed index {ci} used by {seen[ci]} and {(gi, ri)}")
                    return viols, info
                seen[ci] = (gi, ri)
                for c in g["join"]:
                    if not _eq(df[c].iloc[ri], truth[name][(gi, ri)][c]):
                        bad("compressed_cells", f"{name} group {gi} row {ri} col {c}: "
                            f"{df[c].iloc[ri]!r} != source {truth[name][(gi, ri)][c]!r}")
                        return viols, info
        index_of[name] = {v: k for k, v in seen.items()}

    # ---- the harness plays the joiner (once, or twice from one compression: decompress_pmappings
    # must leave the DecompressData usable for another selection pattern)
    r = random.Random(sc["sel_seed"])
    n_res = sc["n_result"]
    passes = 2 if sc.get("decompress_again") else 1
    first_sel = None
    for pass_no in range(passes):
        if pass_no == 1:
            info["probes"]["second_decompress"] = 1
        sel = {}
        for e in sc["einsums"]:
            name = e["name"]
            allrows = [(gi, ri) for gi, g in enumerate(e["groups"]) for ri in range(g["rows"])]
            if not allrows:
                info["empty_einsum"] = True
                return viols, info  # an Einsum without any pmapping cannot be joined; nothing to check
            pat = sc["pattern"] if pass_no == 0 else sc.get("pattern2", "random")
            if pat == "single_group":
                gi = r.choice(sorted({a[0] for a in allrows}))
                cand = [a for a in allrows if a[0] == gi]
            elif pat in ("first_last", "boundaries"):
                cand = []
                for gi, g in enumerate(e["groups"]):
                    if g["rows"]:
                        cand += [(gi, 0), (gi, g["rows"] - 1)]
                info["probes"]["boundary_selection"] = 1
            else:
                cand = allrows
            picks = [r.choice(cand) for _ in range(n_res)]
            if pat == "repeated" and n_res > 1:
                picks = [picks[0]] * n_res
                info["probes"]["repeated_rows"] = 1
            sel[name] = picks
        cols = {f"{n}<SEP>{COMP}": [index_of[n][p] for p in sel[n]] for n in names}
        cols["Total<SEP>energy"] = [float(10 + i) for i in range(n_res)]
        joined = _S["PmappingDataframe"](pd.DataFrame(cols), n_total_pmappings=n_res, n_valid_pmappings=n_res,
                                         ignored_resources=set(), drop_valid_reservations=False, skip_pareto=True)
        try:
            out = cp.decompress_pmappings(joined, dd).data
        except Exception as e:
            bad("decompress_exception", f"{type(e).__name__}: {str(e)[:300]}")
            return viols, info
        if len(out) != n_res:
            bad("row_count", f"decompressed table has {len(out)} rows, joined table had {n_res}")
            return viols, info
        left = [c for c in out.columns if COMP in c]
        if left:
            bad("leftover_index_col", f"columns {left} survive decompression")
        if [float(x) for x in out["Total<SEP>energy"]] != cols["Total<SEP>energy"]:
            bad("row_order", "joined rows were reordered by decompression")
            return viols, info
        for e in sc["einsums"]:
            name = e["name"]
            all_nj = {f"{name}<SEP>{c}" for g in e["groups"] for c in g["nonjoin"]}
            for k, (gi, ri) in enumerate(sel[name]):
                g = e["groups"][gi]
                mine = {f"{name}<SEP>{c}" for c in g["nonjoin"]}
                for c in mine:
                    if c not in out.columns:
                        bad("decompress_cells", f"result row {k}: column {c} missing")
                        return viols, info
                    got = out[c].iloc[k]
                    want = truth[name][(gi, ri)][c]
                    if not _eq(got, want):
                        bad("decompress_cells", f"result row {k} Einsum {name} (source group {gi} row {ri}) "
                            f"col {c}: {got!r} != {want!r}")
                        return viols, info
                for c in all_nj - mine:
                    if c in out.columns and not _isnull(out[c].iloc[k]):
                        bad("decompress_foreign_cell", f"result row {k} Einsum {name} col {c} holds "
                            f"{out[c].iloc[k]!r} but source group {gi} has no such column")
                        return viols, info
        if first_sel is None:
            first_sel = sel
    sel = first_sel
    info["sel"] = sel
    return viols, info


# ------------------------------------------------------------------ big tables (sub-batch)
BIG_SHAPES = [[66000, 10], [40000, 30000, 5], [300, 65400, 200], [65535, 3], [65536, 2], [32760, 20],
              [250, 10], [255, 1, 1], [70000], [10, 70000, 10]]


def gen_big_scenario(seed):
    r = random.Random(seed ^ 0xB16)
    return {"big": True, "rows": r.choice(BIG_SHAPES), "n_einsums": r.choice([1, 2]),
            "W": r.choice([1, 2, 4]), "order_mode": r.choice(["durations", "reverse", "fifo"]),
            "compress_twice": r.random() < 0.3, "n_result": r.choice([3, 8, 30]),
            "sel_seed": r.getrandbits(32), "tape_seed": r.getrandbits(48)}


def execute_big(sc, tape):
    """Same round trip on tables with tens of thousands of rows (vectorised build and check):
    compressed indices must stay unique and identify their row when the running total crosses
    8-, 15- and 16-bit boundaries."""
    import os
    import numpy as np
    from sim import executor as ex
    pd, cp, P = _S["pd"], _S["cp"], _S["P"]
    COMP = "compressed_index"
    viols = []
    info = {"probes": {"big_table_runs": 1}}

    def bad(cls, detail):
        viols.append({"class": cls, "key": "big:" + cls, "detail": detail})

    names = [f"E{i}" for i in range(sc["n_einsums"])]
    e2g, src = {}, {}
    base = 1000
    for n in names:
        groups, frames = [], []
        for rows in sc["rows"]:
            ids = np.arange(base, base + rows, dtype=np.int64)
            base += rows
            df = pd.DataFrame({"Total<SEP>energy": ids.astype("float64") * 2.0,
                               f"{n}<SEP>energy<SEP>GLB<SEP>read": ids,
                               f"{n}<SEP>mapping": ids + 7})
            frames.append(df.copy())
            pm = _S["PmappingDataframe"](df, n_total_pmappings=max(rows, 1), n_valid_pmappings=max(rows, 1),
                                         ignored_resources=set(), drop_valid_reservations=False,
                                         skip_pareto=True)
            groups.append(_S["PmappingGroup"](_S["Compatibility"](tensors=_S["fzs"]()), pm))
        e2g[n], src[n] = groups, frames
    sim = ex.Sim(tape, W=sc["W"], order_mode=sc["order_mode"])
    info["sim"] = sim
    P.set_n_parallel_jobs(sc["W"])
    try:
        with ex.install(sim):
            compressed, dd = cp.compress_einsum2pmappings(e2g, print_progress=False)
            if sc["compress_twice"]:
                compressed, dd = cp.compress_einsum2pmappings(e2g, print_progress=False)
    except Exception as e:
        bad("compress_exception", f"{type(e).__name__}: {str(e)[:300]}")
        return viols, info
    finally:
        P.set_n_parallel_jobs(os.cpu_count())
    r = random.Random(sc["sel_seed"])
    n_res = sc["n_result"]
    cols, sel = {}, {}
    for n in names:
        col = f"{n}<SEP>{COMP}"
        if n not in compressed or len(compressed[n]) != len(sc["rows"]):
            bad("group_count", f"{n}: wrong number of compressed groups")
            return viols, info
        allidx = []
        for gi, (grp, sdf) in enumerate(zip(compressed[n], src[n])):
            df = grp.mappings.data
            if len(df) != len(sdf) or col not in df.columns:
                bad("row_count", f"{n} group {gi}: {len(df)} compressed rows for {len(sdf)} source rows")
                return viols, info
            if not np.array_equal(df["Total<SEP>energy"].to_numpy(dtype="float64"),
                                  sdf["Total<SEP>energy"].to_numpy(dtype="float64")):
                bad("compressed_cells", f"{n} group {gi}: joining cells changed by compression")
                return viols, info
            allidx.append(df[col].to_numpy().astype(np.int64))
        flat = np.concatenate(allidx) if allidx else np.zeros(0, dtype=np.int64)
        if len(np.unique(flat)) != len(flat):
            u, c = np.unique(flat, return_counts=True)
            bad("index_not_unique", f"{n}: {int((c > 1).sum())} compressed indices are used by more than one row "
                f"(e.g. {int(u[c > 1][0])}); group sizes {sc['rows']}")
            return viols, info
        # selection biased to the last rows of the last groups (highest running totals) and boundaries
        picks = []
        nonempty = [gi for gi, rows in enumerate(sc["rows"]) if rows]
        for _ in range(n_res):
            gi = r.choice(nonempty[-2:] if r.random() < 0.7 else nonempty)
            rows = sc["rows"][gi]
            ri = r.choice([0, rows - 1, max(0, rows - 2), r.randrange(rows)])
            picks.append((gi, ri))
        sel[n] = picks
        cols[col] = [int(allidx[gi][ri]) for gi, ri in picks]
    cols["Total<SEP>energy"] = [float(10 + i) for i in range(n_res)]
    joined = _S["PmappingDataframe"](pd.DataFrame(cols), n_total_pmappings=n_res, n_valid_pmappings=n_res,
                                     ignored_resources=set(), drop_valid_reservations=False, skip_pareto=True)
    try:
        out = cp.decompress_pmappings(joined, dd).data
    except Exception as e:
        bad("decompress_exception", f"{type(e).__name__}: {str(e)[:300]}")
        return viols, info
    if len(out) != n_res:
        bad("row_count", f"decompressed table has {len(out)} rows, joined table had {n_res}")
        return viols, info
    for n in names:
        for k, (gi, ri) in enumerate(sel[n]):
            for c in (f"{n}<SEP>energy<SEP>GLB<SEP>read", f"{n}<SEP>mapping"):
                want = src[n][gi][c].iloc[ri]
                got = out[c].iloc[k] if c in out.columns else "<missing>"
                if not _eq(got, want):
                    bad("decompress_cells", f"result row {k} Einsum {n} (source group {gi} row {ri} of sizes "
                        f"{sc['rows']}) col {c}: {got!r} != {want!r}")
                    return viols, info
    info["sel"] = sel
    return viols, info


# ------------------------------------------------------------------ real tables (sub-batch)
def gen_real_scenario(seed):
    from sim import specgen
    r = random.Random(seed ^ 0xC15)
    p = specgen.gen_params(r, max_einsums=2)
    p["rf"] = False
    p["M"] = min(p["M"], 4)
    p["N"] = [min(x, 4) for x in p["N"]]
    return {"real": True, "params": p, "W": r.choice([1, 2, 3, 4, 8]),
            "order_mode": r.choice(["durations"] * 3 + ["reverse", "rotate"]),
            "compress_twice": r.random() < 0.3, "n_result": r.choice([2, 5, 20, 60]),
            "sel_seed": r.getrandbits(32), "tape_seed": r.getrandbits(48)}


def execute_real(sc, tape):
    """compress -> select -> decompress on the PmappingGroups that make_pmappings really
    produces (cells are not unique there, so identity is positional: compressed row k of
    group g is source row k of group g, checked on the joining cells, and the decompressed
    non-joining cells must equal that source row's)."""
    import os
    from sim import executor as ex, specgen, common
    from accelforge.mapper.FFM import main as ffm
    pd, cp, P = _S["pd"], _S["cp"], _S["P"]
    COMP = "compressed_index"
    viols = []
    info = {"probes": {}}

    def bad(cls, detail):
        viols.append({"class": cls, "key": "real:" + cls, "detail": detail})

    sim = ex.Sim(tape, W=sc["W"], order_mode=sc["order_mode"])
    info["sim"] = sim
    try:
        spec = specgen.build_spec(sc["params"], common.scratch_root())
        P.set_n_parallel_jobs(1)
        pm = ffm.make_pmappings(spec, print_progress=False)
    except Exception as e:
        info["skipped"] = f"{type(e).__name__}"
        P.set_n_parallel_jobs(os.cpu_count())
        return viols, info
    e2g = pm.einsum2pmappings
    names = list(e2g.keys())
    from accelforge.mapper.FFM._pareto_df.df_convention import col_used_in_joining
    src = {n: [g.mappings.data.reset_index(drop=True).copy() for g in e2g[n]] for n in names}
    info["probes"]["real_table_runs"] = 1
    info["probes"]["real_table_groups"] = sum(len(v) for v in src.values())
    info["probes"]["real_table_rows"] = sum(len(d) for v in src.values() for d in v)
    if any(sum(len(d) for d in v) == 0 for v in src.values()):
        info["skipped"] = "empty einsum"
        return viols, info
    P.set_n_parallel_jobs(sc["W"])
    try:
        with ex.install(sim):
            compressed, dd = cp.compress_einsum2pmappings(e2g, print_progress=False)
            if sc["compress_twice"]:
                compressed, dd = cp.compress_einsum2pmappings(e2g, print_progress=False)
    except Exception as e:
        bad("compress_exception", f"{type(e).__name__}: {str(e)[:300]}")
        return viols, info
    finally:
        P.set_n_parallel_jobs(os.cpu_count())
    if set(compressed.keys()) != set(names) or set(dd.data.keys()) != set(names):
        bad("einsum_missing", f"keys {list(compressed.keys())} / {list(dd.data.keys())} are not the input Einsums {names}")
        return viols, info

    def same(a, b):
        if _isnull(a) and _isnull(b):
            return True
        try:
            return _eq(a, b) or a is b
        except Exception:
            return a is b

    index_of = {}
    for n in names:
        col = f"{n}<SEP>{COMP}"
        seen = {}
        if len(compressed[n]) != len(src[n]):
            bad("group_count", f"{n}: {len(compressed[n])} compressed groups for {len(src[n])} input groups")
            return viols, info
        for gi, (sdf, grp) in enumerate(zip(src[n], compressed[n])):
            df = grp.mappings.data
            if len(df) != len(sdf):
                bad("row_count", f"{n} group {gi}: {len(df)} compressed rows for {len(sdf)} source rows")
                return viols, info
            jcols = [c for c in sdf.columns if col_used_in_joining(c)]
            extra = [c for c in df.columns if c != col and c not in jcols]
            if extra:
                info["probes"]["nonjoin_col_kept"] = 1
            for ri in range(len(df)):
                ci = int(df[col].iloc[ri])
                if ci in seen:
                    bad("index_not_unique", f"{n}: compressed index {ci} used by {seen[ci]} and {(gi, ri)}")
                    return viols, info
                seen[ci] = (gi, ri)
            for c in jcols:
                if c in df.columns and not all(same(x, y) for x, y in zip(df[c].tolist(), sdf[c].tolist())):
                    bad("compressed_cells", f"{n} group {gi} col {c}: compressed joining cells differ from source")
                    return viols, info
        index_of[n] = {v: k for k, v in seen.items()}
    r = random.Random(sc["sel_seed"])
    n_res = sc["n_result"]
    sel = {}
    for n in names:
        allrows = [(gi, ri) for gi, d in enumerate(src[n]) for ri in range(len(d))]
        bnd = [(gi, x) for gi, d in enumerate(src[n]) if len(d) for x in (0, len(d) - 1)]
        sel[n] = [r.choice(bnd) if r.random() < 0.4 else r.choice(allrows) for _ in range(n_res)]
    cols = {f"{n}<SEP>{COMP}": [index_of[n][p] for p in sel[n]] for n in names}
    cols["Total<SEP>energy"] = [float(10 + i) for i in range(n_res)]
    joined = _S["PmappingDataframe"](pd.DataFrame(cols), n_total_pmappings=n_res, n_valid_pmappings=n_res,
                                     ignored_resources=set(), drop_valid_reservations=False, skip_pareto=True)
    try:
        out = cp.decompress_pmappings(joined, dd).data
    except Exception as e:
        bad("decompress_exception", f"{type(e).__name__}: {str(e)[:300]}")
        return viols, info
    if len(out) != n_res:
        bad("row_count", f"decompressed table has {len(out)} rows, joined table had {n_res}")
        return viols, info
    if [c for c in out.columns if COMP in c]:
        bad("leftover_index_col", "compressed_index columns survive decompression")
    for n in names:
        for k, (gi, ri) in enumerate(sel[n]):
            sdf = src[n][gi]
            for c in sdf.columns:
                if col_used_in_joining(c):
                    continue
                if c not in out.columns:
                    bad("decompress_cells", f"result row {k}: column {c} missing")
                    return viols, info
                if not same(out[c].iloc[k], sdf[c].iloc[ri]):
                    bad("decompress_cells", f"result row {k} Einsum {n} (source group {gi} row {ri}) col {c}: "
                        f"{out[c].iloc[k]!r} != {sdf[c].iloc[ri]!r}")
                    return viols, info
    info["sel"] = sel
    return viols, info


def _tape(sc, replay=None):
    from sim.tape import Tape
    return Tape(replay=replay) if replay is not None else Tape(seed=sc["tape_seed"])


def run_seed(seed, ctx):
    from sim.minimize import minimize
    if seed % REAL_EVERY == REAL_EVERY - 1:
        return _run_real(seed)
    if seed % BIG_EVERY == BIG_EVERY - 2:
        return _run_real(seed, big=True)
    sc = gen_scenario(seed)
    tape = _tape(sc)
    viols, info = execute(sc, tape)
    sim = info["sim"]
    st = {k: v for k, v in sim.stats.items() if k != "pickled_bytes"}
    st.update(info["probes"])
    st["w1_shared_mode"] = int(sc["W"] == 1)
    st["wN_copy_mode"] = int(sc["W"] > 1 and len(sc["einsums"]) > 1)
    st["compress_twice"] = int(sc["compress_twice"])
    st["zero_row_group"] = int(any(g["rows"] == 0 for e in sc["einsums"] for g in e["groups"]))
    st["mixed_column_sets"] = int(any(len({tuple(sorted(g["nonjoin"])) for g in e["groups"]}) > 1
                                      for e in sc["einsums"]))
    st["multi_einsum"] = int(len(sc["einsums"]) > 1)
    sel = info.get("sel") or {}
    nontrivial = any(len(e["groups"]) >= 2 for e in sc["einsums"]) and sc["n_result"] >= 2 and \
        any(len({p[0] for p in picks}) >= 2 for picks in sel.values())
    deliv = sim.delivery_signature()
    shape = [(e["name"], [(g["rows"], tuple(g["nonjoin"]), tuple(g["join"]), g["index_kind"])
                          for g in e["groups"]]) for e in sc["einsums"]]
    key = hashlib.sha1(repr((shape, sorted((k, v) for k, v in sel.items()), sc["W"], deliv,
                             sc["compress_twice"])).encode()).hexdigest()[:16]
    res = {
        "evals": 1, "keys": [key] if nontrivial else [],
        "interleavings": [hashlib.sha1(repr((sc["W"], deliv, sc["compress_twice"],
                                             tuple(c.lazy for c in sim.calls))).encode()).hexdigest()[:16]],
        "stats": st, "sim_seconds": sim.now, "events_sha": tape.event_digest(), "violations": [],
    }
    if seed % 499 == 0 or ctx.get("want_sample"):
        res["sample"] = {"seed": seed, "scenario": sc, "arrival_orders": [list(c.delivery) for c in sim.calls]}
    if viols:
        vclass = viols[0]["class"]

        def runner(sc2, tv):
            t = _tape(sc2, replay=tv)
            v2, _ = execute(sc2, t)
            return {v["class"] for v in v2}, t.values()

        msc, mtv, nruns = minimize(sc, tape.values(), runner, vclass, simplify, max_runs=400, max_s=60)
        t = _tape(msc, replay=mtv)
        v2, _ = execute(msc, t)
        v = dict(next((x for x in v2 if x["class"] == vclass), viols[0]))
        v["replay"] = {"scenario": msc, "tape": mtv, "events_sha": t.event_digest(),
                       "original_scenario": sc, "minimize_runs": nruns}
        res["violations"] = [v]
    return res


def _run_real(seed, big=False):
    from sim import common
    sc = gen_big_scenario(seed) if big else gen_real_scenario(seed)
    tape = _tape(sc)
    viols, info = execute_big(sc, tape) if big else execute_real(sc, tape)
    common.purge_scratch()
    sim = info["sim"]
    st = {k: v for k, v in sim.stats.items() if k != "pickled_bytes"}
    st.update(info["probes"])
    if info.get("skipped"):
        st["real_table_skipped"] = 1
    sel = info.get("sel") or {}
    deliv = sim.delivery_signature()
    nontrivial = bool(sel) and any(len({p[0] for p in picks}) >= 2 for picks in sel.values())
    res = {"evals": 1,
           "keys": [hashlib.sha1(repr((sc.get("params") or sc.get("rows"), sc["W"], deliv, sorted(sel.items()))).encode()).hexdigest()[:16]]
           if nontrivial else [],
           "interleavings": [hashlib.sha1(repr((sc["W"], deliv, sc["compress_twice"])).encode()).hexdigest()[:16]],
           "stats": st, "sim_seconds": sim.now, "events_sha": tape.event_digest(), "violations": []}
    if viols:
        v = dict(viols[0])
        v["replay"] = {"scenario": sc, "tape": tape.values(), "events_sha": tape.event_digest()}
        res["violations"] = [v]
    return res


def replay(rp, ctx):
    sc = rp["scenario"]
    t = _tape(sc, replay=rp["tape"])
    if sc.get("real") or sc.get("big"):
        viols, info = execute_big(sc, t) if sc.get("big") else execute_real(sc, t)
        return {"violations": viols, "events_sha": t.event_digest()}
    viols, info = execute(sc, t)
    return {"violations": viols, "events_sha": t.event_digest()}
