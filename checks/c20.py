"""C20 -- mapper results do not depend on scheduling, hashing or caching.

Per scenario (one seed): a generated spec, one reference run under the null schedule
(W=1 sequential path, all process caches cleared first, null tape) and K perturbed runs of the
same spec, each under its own seeded schedule: worker count (copy vs share, split-in-half),
completion order of every fan-in, lazy/eager consumption, cache epochs, clock jumps, uuid
stream; plus history scenarios (two-stage API, join twice, pickle round trip, on-disk
cache_dir cold/warm/corrupted).  Every scenario is additionally executed under a second
PYTHONHASHSEED in another interpreter and the driver compares front digests.
"""
from __future__ import annotations

import hashlib
import json
import os
import random
import shutil

PROPERTY = "C20"
REPLICAS = 2
REPLICA_NOTE = ("both digests are W=1 reference fronts of the same spec; the replica interpreter additionally "
                "compares a W=4 FIFO run with its own reference in-process")
TIERS = {
    "quick": dict(seeds=160, soft_s=170, hard_s=1500, per_seed_s=900, init_s=600, k=2),
    "thorough": dict(seeds=16000, soft_s=3000, hard_s=5400, per_seed_s=1200, init_s=600, k=4),
}
RULE = ("one evaluation = one complete mapper run (map_workload_to_arch, or make_pmappings+join_pmappings, "
        "or a cache_dir history step) of a generated 1-3 Einsum spec under one seeded schedule. A scenario is "
        "one reference run + K perturbed runs of the same spec. Non-trivial run: the executor seam was entered "
        "by >=2 parallel() calls with >=2 jobs, at least one unordered fan-in was delivered out of submission "
        "order (or a cache/clock/fault perturbation fired) and the reference front is non-empty. Distinct: "
        "SHA-1 of (spec, W, delivery order of every fan-in, perturbation list).")
INTERLEAVING_MEASURE = "distinct tuples (call site, n_jobs, completion order) over all parallel() calls of a run"
PROBES = ["unordered_permuted", "straggler_overtaken", "lazy_calls",
          "exec_order_permuted", "cache_epoch_clears", "cache_cold_start", "clock_jumps", "w1_runs", "wN_runs",
          "two_stage_runs", "join_twice_runs", "pickle_roundtrip_runs", "multi_row_fronts",
          "cache_dir_histories", "cache_user_edit_steps", "cache_warm_hit", "cache_variant_not_served_stale", "disk_fault_torn",
          "disk_fault_lost", "disk_fault_enospc", "disk_fault_detected_or_recomputed", "job_fault_runs",
          "job_fault_propagated", "svg_write_fault_runs", "prewarm_other_spec_runs", "prewarm_coarseness"]
REAL_VS_STUB = {
    "real": ["accelforge mapper (make_pmappings, join_pmappings, detailed evaluation), frontend, model",
             "pandas/numpy/sympy/numba kernels", "cloudpickle round trip of every job and result (W>1)",
             "joblib.Memory on a real directory", "joblib.dump/load (_memmap_read)"],
    "stub": ["joblib.Parallel/loky -> SimParallel", "time.time -> virtual clock with jumps",
             "uuid.uuid4 -> seeded stream", "per-worker module caches -> cache epochs (clear_all at job start)"],
}
ASSUMPTIONS = [
    "cache epochs (clear every accelforge process cache at a tape-chosen job start) stand for 'this job ran "
    "in a fresh / differently warmed loky worker'; finer per-cache subsets are not explored",
    "objective vectors are compared with rel_tol 1e-6 (float32 arithmetic); mapping structures exactly",
    "specs are sampled from sim/specgen.py (matmul chains, shared-input pairs, copy tail; 2-3 memory levels)",
]

_S = {}


def init(ctx):
    import logging
    import warnings
    warnings.filterwarnings("ignore")
    logging.disable(logging.WARNING)
    import accelforge as af
    from accelforge.mapper.FFM import main as ffm_main
    import accelforge.util.parallel  # noqa
    import sys
    from sim import caches
    _S.update(af=af, ffm=ffm_main, P=sys.modules["accelforge.util.parallel"])
    caches.all_caches(refresh=True)


# ------------------------------------------------------------------ scenario
W_CHOICES = [1, 2, 2, 3, 4, 8, 16]


def gen_scenario(seed, k):
    from sim import specgen
    r = random.Random(seed)
    p = specgen.gen_params(r)
    # keep runs short: the quick tier has ~10 s per scenario
    if p["rf"] and (p["n_einsums"] > 1 or max([p["M"]] + p["N"]) > 4):
        p["rf"] = False
    mode = r.choice(["map"] * 4 + ["warm_other"] * 2 + ["two_stage"] * 2 + ["cache"] * 2 + ["fault"])
    runs = []
    for j in range(k):
        runs.append({
            "W": r.choice(W_CHOICES),
            "order_mode": r.choice(["durations"] * 5 + ["reverse", "rotate", "fifo"]),
            "exec_shuffle": r.random() < 0.3,
            "cache_mode": r.choice(["keep", "cold", "epochs", "epochs"]),
            "clock_jumpy": r.random() < 0.4,
            "uuid_seed": r.getrandbits(32),
            "p_nonzero": r.choice([1.0, 1.0, 0.5, 0.15]),
            "tape_seed": r.getrandbits(48),
        })
    if mode == "cache" and r.random() < 0.6:
        p["use_vars"] = True  # "same arch text, different variables" is the interesting cache_dir case
    if mode == "warm_other":
        # history across specs: the same (simulated) worker process first maps a *different* spec
        # and keeps its process caches; a memo cache whose key omits an argument then serves stale
        # answers to this spec
        for cfg in runs:
            cfg["prewarm"] = _other_spec(p, r)
            cfg["cache_mode"] = "keep"
        mode = "map"
    sc = {"params": p, "mode": mode, "runs": runs, "aux_seed": r.getrandbits(32)}
    focus = os.environ.get("VERIF_C20_FOCUS")
    if focus == "wonly":
        # development aid: only the worker count varies (FIFO order, warm caches, steady clock)
        sc["mode"] = "map"
        sc["runs"] = [dict(runs[0], W=W, order_mode="fifo", exec_shuffle=False, cache_mode="keep",
                           clock_jumpy=False, p_nonzero=0.0) for W in (16, 4)]
    return sc


def _other_spec(p, r):
    """A spec that differs from p in exactly one knob the mapper's memo caches must be keyed on."""
    import copy
    q = copy.deepcopy(p)
    MAPPER_KNOBS = {
        "explore_imperfect_temporal_loops": True, "explore_imperfect_spatial_loops": True,
        "max_fused_loops_per_rank_variable": 2, "explore_loop_orders": False,
        "prioritize_reuse_of_unfused_tensors": True, "force_memory_hierarchy_order": False,
        "max_loops_minus_ranks": 1, "max_loops_per_spatial_dimension": 1,
    }
    which = r.choice(["coarseness", "coarseness", "coarseness", "M", "N", "bits", "glb_size", "fused", "fanout",
                      "knob", "knob", "knob", "metrics", "energy", "throughput", "keep"])
    if which == "coarseness":
        cur = (q.get("mapper") or {}).get("tiling_coarseness", 1)
        q["mapper"] = dict(q.get("mapper") or {}, tiling_coarseness=r.choice([c for c in (1, 2, 4) if c != cur]))
    elif which == "knob":
        k = r.choice(sorted(MAPPER_KNOBS))
        q["mapper"] = dict(q.get("mapper") or {}, **{k: MAPPER_KNOBS[k]})
        which = "knob:" + k
    elif which == "metrics":
        from sim.specgen import METRIC_SETS
        q["metrics"] = r.choice([m for m in METRIC_SETS if m != q["metrics"]])
    elif which == "energy":
        q["main_energy"] = q["main_energy"] * 3 + 1
        q["glb_energy"] = q["glb_energy"] * 2 + 0.5
    elif which == "throughput":
        q["glb_throughput"] = 4 if q["glb_throughput"] != 4 else "inf"
        q["mac_throughput"] = 2 if q["mac_throughput"] == 1 else 1
    elif which == "keep":
        q["glb_keep"] = "All" if q["glb_keep"] != "All" else "~MainMemory"
    elif which == "M":
        q["M"] = r.choice([x for x in (2, 3, 4, 6) if x != q["M"]])
    elif which == "N":
        q["N"] = [r.choice([x for x in (2, 3, 4, 6) if x != q["N"][0]])] * len(q["N"])
    elif which == "bits":
        q["bits"] = 16 if q["bits"] == 8 else 8
    elif which == "glb_size":
        q["glb_size"] = "inf" if q["glb_size"] != "inf" else 64 * q["bits"]
    elif which == "fused":
        q["max_fused_loops"] = 0 if q["max_fused_loops"] != 0 else "inf"
    else:
        q["fanout"] = 2 if q["fanout"] == 1 else 1
    q["_differs_in"] = which
    return q


# ------------------------------------------------------------------ one mapper run
class RunResult:
    def __init__(self):
        self.front = None
        self.error = None
        self.sim = None
        self.tape = None
        self.clock = None
        self.extra = {}
        self.wall = 0.0


def _epoch_hook(cfg, counters):
    from sim import caches

    def hook(sim, rec, i):
        if cfg["cache_mode"] != "epochs":
            return
        if sim.tape.coin(1, 4, "epoch"):
            caches.clear_all()
            counters["cache_epoch_clears"] = counters.get("cache_epoch_clears", 0) + 1
            sim.tape.log("epoch", rec.index, i)
    return hook


def run_mapper(params, cfg, tape, body, workdir, job_fault=None):
    """Execute `body(spec)` (a callable doing mapper calls, returning Mappings or a list of
    them) under the schedule described by cfg/tape.  cfg None == the null schedule."""
    import time
    from sim import specgen, canon, caches, clock as clk, executor as ex
    af, P = _S["af"], _S["P"]
    rr = RunResult()
    rr.tape = tape
    counters = {}
    null = cfg is None
    cfg = cfg or {"W": 1, "order_mode": "fifo", "exec_shuffle": False, "cache_mode": "cold",
                  "clock_jumpy": False, "uuid_seed": 0}
    spec = specgen.build_spec(params, workdir)
    if cfg["cache_mode"] in ("cold", "epochs") or null:
        caches.clear_all()
        counters["cache_cold_start"] = 1
    vc = clk.VirtualClock(tape, jumpy=cfg["clock_jumpy"])
    us = clk.UuidStream(cfg["uuid_seed"])
    sim = ex.Sim(tape, W=cfg["W"], order_mode=cfg["order_mode"], exec_shuffle=cfg["exec_shuffle"],
                 clock=vc, on_job_start=_epoch_hook(cfg, counters), job_fault=job_fault)
    rr.sim, rr.clock = sim, vc
    P.set_n_parallel_jobs(cfg["W"])
    t0 = time.perf_counter()
    try:
        with clk.patched(vc, us), ex.install(sim):
            out = body(spec)
        if isinstance(out, list):
            rr.front = [canon.front_of(m, params["metrics"]) for m in out]
        else:
            rr.front = canon.front_of(out, params["metrics"])
    except Exception as e:
        rr.error = e
    finally:
        P.set_n_parallel_jobs(os.cpu_count())
        rr.wall = time.perf_counter() - t0
    counters["clock_jumps"] = sum(vc.jumps.values())
    rr.extra = counters
    return rr


def body_map(spec):
    return _S["ffm"].map_workload_to_arch(spec, print_progress=False)


def body_two_stage(variant):
    """make_pmappings + join_pmappings; variants exercise call history on one
    MultiEinsumPmappings: join twice (second must equal first) and a pickle round trip
    between make and join (what joblib.Memory hands back)."""
    def body(spec):
        import pickle
        ffm = _S["ffm"]
        pm = ffm.make_pmappings(spec, print_progress=False)
        if variant in ("pickle", "pickle_twice"):
            pm = pickle.loads(pickle.dumps(pm))
        m1 = ffm.join_pmappings(pm, metrics=spec.mapper.metrics, require_all_einsums=False,
                                print_progress=False)
        if variant in ("twice", "pickle_twice"):
            m2 = ffm.join_pmappings(pm, metrics=spec.mapper.metrics, require_all_einsums=False,
                                    print_progress=False)
            return [m1, m2]
        return m1
    return body


def _strip_structure(front):
    """two-stage results are not evaluated in detail; compare them on their own terms."""
    return front


def _stats_of(rr, cfg):
    st = {k: v for k, v in rr.sim.stats.items() if k != "pickled_bytes"}
    st.update(rr.extra)
    st["w1_runs"] = int(cfg is not None and cfg["W"] == 1)
    st["wN_runs"] = int(cfg is not None and cfg["W"] > 1)
    return st


def _nontrivial(rr, ref_front):
    calls = [c for c in rr.sim.calls if c.n_jobs >= 2]
    rows = ref_front["rows"] if isinstance(ref_front, dict) else ref_front[0]["rows"]
    perturbed = rr.sim.stats["unordered_permuted"] > 0 or rr.extra.get("cache_epoch_clears", 0) > 0 \
        or rr.extra.get("clock_jumps", 0) > 0 or rr.extra.get("prewarm_other_spec_runs", 0) > 0
    return len(calls) >= 2 and perturbed and len(rows) > 0


def _mk_tape(cfg, replay=None):
    from sim.tape import Tape
    if replay is not None:
        return Tape(replay=replay)
    if cfg is None:
        return Tape(replay=[])
    return Tape(seed=cfg["tape_seed"], p_nonzero=cfg["p_nonzero"])


def _compare(ref_front, got_front):
    from sim import canon
    if isinstance(ref_front, list) or isinstance(got_front, list):
        a = ref_front if isinstance(ref_front, list) else [ref_front]
        b = got_front if isinstance(got_front, list) else [got_front]
        for x in b:
            c = canon.compare_fronts(a[0], x)
            if c:
                return c
        return None
    return canon.compare_fronts(ref_front, got_front)


def _call_sites_perturbed(sim):
    out = []
    for c in sim.calls:
        d = c.delivery
        if any(d[j] > d[j + 1] for j in range(len(d) - 1)):
            out.append(c.site)
    return out


# ------------------------------------------------------------------ scenario kinds
def _body_for(sc):
    mode = sc["mode"]
    if mode == "two_stage":
        variant = ["plain", "twice", "pickle", "pickle_twice"][sc["aux_seed"] % 4]
        return body_two_stage(variant), variant
    return body_map, None


def _violation(cls, site_key, detail, sc, run_index, cfg, tape, extra=None):
    rp = {"scenario": {"params": sc["params"], "mode": sc["mode"], "aux_seed": sc["aux_seed"],
                       "runs": [cfg] if cfg is not None else []},
          "run_index": 0, "tape": tape.values() if tape is not None else [],
          "events_sha": tape.event_digest() if tape is not None else None}
    if extra:
        rp.update(extra)
    return {"class": cls, "key": f"{cls}|{site_key}", "detail": detail, "replay": rp}


def exec_compare_run(sc, cfg, tape, workdir, ref_front):
    """One perturbed run + comparison; returns (violation classes dict, rr)."""
    body, variant = _body_for(sc)
    if cfg.get("prewarm"):
        from sim import caches, common
        from sim.tape import Tape
        caches.clear_all()
        pre = run_mapper(cfg["prewarm"], dict(cfg, cache_mode="keep", prewarm=None),
                         Tape(seed=cfg["tape_seed"] ^ 0x5A5A, p_nonzero=cfg["p_nonzero"]), body_map, workdir)
        common.purge_scratch()
        cfg = dict(cfg, cache_mode="keep")
    rr = run_mapper(sc["params"], cfg, tape, body, workdir)
    if cfg.get("prewarm"):
        rr.extra["prewarm_other_spec_runs"] = 1
        rr.extra["prewarm_" + str(cfg["prewarm"].get("_differs_in")).split(":")[0]] = 1
        if pre.error is not None:
            rr.extra["prewarm_spec_raised"] = 1
    if rr.error is not None:
        return {"exception": f"perturbed run raised {type(rr.error).__name__}: {str(rr.error)[:300]} "
                             f"while the reference run returned a front"}, rr
    c = _compare(ref_front, rr.front)
    if c:
        return {c[0]: c[1]}, rr
    return {}, rr


def exec_prefix(sc, last_tape_values, workdir, ref_front):
    """Runs sc["runs"][:-1] under their own seeded tapes (results ignored: they only build the
    process history), then the last run under the given tape values; returns its verdict."""
    from sim import common
    for cfg in sc["runs"][:-1]:
        exec_compare_run(sc, cfg, _mk_tape(cfg), workdir, ref_front)
        common.purge_scratch()
    cfg = sc["runs"][-1]
    t = _mk_tape(cfg, replay=last_tape_values)
    cl, rr = exec_compare_run(sc, cfg, t, workdir, ref_front)
    common.purge_scratch()
    return cl, rr, t


REPLICA_CFG = {"W": 4, "order_mode": "fifo", "exec_shuffle": False, "cache_mode": "cold",
               "clock_jumpy": False, "uuid_seed": 0, "p_nonzero": 0.0, "tape_seed": 0}


def replica_run(sc, workdir):
    body, variant = _body_for(sc)
    return run_mapper(sc["params"], dict(REPLICA_CFG), _mk_tape(None), body, workdir)


class _NoJoinSplit:
    """Join fan-out splitting (split_in_half until there are n_procs groups) switched off: the
    join module then believes it has one worker, everything else still runs with W workers."""

    def __enter__(self):
        import accelforge.mapper.FFM._join_pmappings.join_pmappings as jp
        self.jp, self.orig = jp, jp.get_n_parallel_jobs
        jp.get_n_parallel_jobs = lambda: 1
        return self

    def __exit__(self, *exc):
        self.jp.get_n_parallel_jobs = self.orig
        return False


def attributed_to_split(sc, tape_values, workdir, ref_front, vclass):
    """True iff the violation of class vclass disappears when only the join's worker-count
    dependent group splitting is disabled (same scenario, same tape).  Used to identify the
    recorded known finding by its call site; anything else is reported as new."""
    with _NoJoinSplit():
        cl, _, _ = exec_prefix(sc, tape_values, workdir, ref_front)
    return vclass not in cl


def reference_run(sc, workdir):
    body, variant = _body_for(sc)
    tape = _mk_tape(None)
    return run_mapper(sc["params"], None, tape, body, workdir)


def run_seed(seed, ctx):
    from sim import common, canon
    from sim.minimize import minimize
    workdir = common.scratch_root()
    k = int(ctx["cfg"].get("k", 2))
    sc = gen_scenario(seed, k)
    if sc["mode"] == "cache":
        from checks import c20_cache
        return c20_cache.run_history(seed, sc, ctx, workdir)
    if sc["mode"] == "fault":
        from checks import c20_fault
        return c20_fault.run_fault_scenario(seed, sc, ctx, workdir)
    res = {"evals": 0, "keys": [], "interleavings": [], "stats": {}, "sim_seconds": 0.0,
           "violations": [], "events_sha": None, "xdigest": None}

    def bump(st):
        for kk, v in st.items():
            if v:
                res["stats"][kk] = res["stats"].get(kk, 0) + v

    ref = reference_run(sc, workdir)
    res["evals"] += 1
    common.purge_scratch()
    if ref.error is not None:
        bump({"ref_error_scenarios": 1})
        res["events_sha"] = hashlib.sha1(repr(type(ref.error).__name__).encode()).hexdigest()
        res["xdigest"] = {"front": "ref_error:" + type(ref.error).__name__}
        return res
    ref_front = ref.front
    first = ref_front[0] if isinstance(ref_front, list) else ref_front
    if isinstance(ref_front, list) and len(ref_front) == 2:
        # history check on the reference itself: second join on the same pmappings == first
        c = canon.compare_fronts(ref_front[0], ref_front[1])
        if c:
            # not C20's business (the property is about schedules, hashing and caching, not about
            # joining the same pmappings twice): recorded, not judged
            bump({"join_twice_second_differs": 1})
    bump({"multi_row_fronts": int(len(first["rows"]) > 1),
          "two_stage_runs": int(sc["mode"] == "two_stage"),
          "join_twice_runs": int(isinstance(ref_front, list)),
          "pickle_roundtrip_runs": int(sc["mode"] == "two_stage" and (sc["aux_seed"] % 4) >= 2)})
    res["xdigest"] = {"front": canon.sha(first)}
    res["replay_base"] = {"scenario": {"params": sc["params"], "mode": sc["mode"],
                                       "aux_seed": sc["aux_seed"], "runs": []}}
    if ctx.get("role", 0) == 1:
        # Replica under another PYTHONHASHSEED.  Its digest comes from a *parallel* run (W=4, FIFO,
        # null tape, cold caches) rather than from the W=1 reference: the driver compares it with
        # the primary's W=1 reference digest, which by C20 must be equal, and a hash-seed dependence
        # that only exists on the multi-worker code path is reached as well.
        cfg_r = dict(REPLICA_CFG)
        t_r = _mk_tape(None)
        cl, rep = exec_compare_run(sc, cfg_r, t_r, workdir, ref_front)
        common.purge_scratch()
        res["evals"] += 1
        # The replica's W=4 run is judged against the replica's own W=1 reference (same hash seed);
        # the digest sent to the driver is the reference's, so that the cross-interpreter comparison
        # is about the hash seed only and a worker-count dependence is reported under its own class.
        for vclass, detail in cl.items():
            sc1 = dict(sc, runs=[cfg_r])
            key = "replica,W=4"
            if vclass == "representative" and attributed_to_split(sc1, [], workdir, ref_front, vclass):
                key = "split_in_half"
            res["violations"].append(_violation(vclass, key, detail + " [replica run: W=4, FIFO, null tape]",
                                                sc1, 0, cfg_r, t_r))
            break
        res["events_sha"] = res["xdigest"]["front"]
        return res
    shas = [canon.sha(first)]
    for j, cfg in enumerate(sc["runs"]):
        tape = _mk_tape(cfg)
        classes, rr = exec_compare_run(sc, cfg, tape, workdir, ref_front)
        common.purge_scratch()
        res["evals"] += 1
        res["sim_seconds"] += rr.sim.now
        bump(_stats_of(rr, cfg))
        shas.append(tape.event_digest())
        sig = rr.sim.delivery_signature()
        res["interleavings"].append(hashlib.sha1(repr(sig).encode()).hexdigest()[:16])
        if _nontrivial(rr, ref_front):
            res["keys"].append(hashlib.sha1(repr((sc["params"], cfg["W"], sig, cfg["cache_mode"],
                                                   cfg["clock_jumpy"], sc["mode"],
                                                   (cfg.get("prewarm") or {}).get("_differs_in"))).encode()).hexdigest()[:16])
        if classes and not res["violations"]:
            vclass, detail = next(iter(classes.items()))

            def runner(sc2, tv):
                cl, _, t = exec_prefix(sc2, tv, workdir, ref_front)
                return set(cl), t.values()

            # the cache state a run starts from is the history of this scenario (reference, then the
            # runs before it): the replay carries that prefix and the minimiser tries to drop it
            sc1 = dict(sc, runs=sc["runs"][:j + 1])
            msc, mtv, nruns = minimize(sc1, tape.values(), runner, vclass, _simplify_run,
                                       max_runs=40, max_s=float(ctx["cfg"].get("minimize_s", 90)),
                                       group_by_site=True)
            cfgm = msc["runs"][-1]
            cl, rrm, t = exec_prefix(msc, mtv, workdir, ref_front)
            sites = sorted(set(_call_sites_perturbed(rrm.sim))) if cl else []
            site_key = ",".join(sites) if sites else f"W={cfgm['W']}"
            if vclass == "representative" and cfgm["W"] > 1 and cl and \
                    attributed_to_split(msc, mtv, workdir, ref_front, vclass):
                site_key = "split_in_half"
            v = _violation(
                vclass, site_key, (cl.get(vclass) or detail) + f" [perturbed fan-ins in minimised run: "
                f"{sites}; W={cfgm['W']}; cache_mode={cfgm['cache_mode']}; runs replayed before it: "
                f"{len(msc['runs']) - 1}]", msc, 0, cfgm, t,
                {"minimize_runs": nruns, "original_tape_nonzero": len(tape.nonzero_positions())})
            v["replay"]["scenario"]["runs"] = msc["runs"]
            res["violations"].append(v)
    res["events_sha"] = hashlib.sha1("".join(shas).encode()).hexdigest()
    if (seed % 7 == 0 or ctx.get("want_sample")) and ctx.get("role", 0) == 0:
        res["sample"] = {"seed": seed, "spec_params": sc["params"], "mode": sc["mode"],
                         "reference_front_rows": len(first["rows"]),
                         "reference_objectives": [r["obj"] for r in first["rows"]][:5],
                         "runs": [{kk: c[kk] for kk in ("W", "order_mode", "cache_mode", "clock_jumpy")}
                                  for c in sc["runs"]]}
    return res


def run_pinned(pinned, ctx):
    """The specific input of a recorded known finding: reference + the pinned run, attributed."""
    from sim import common, canon
    workdir = common.scratch_root()
    sc = {"params": pinned["params"], "mode": "map", "runs": [pinned["run"]], "aux_seed": 0}
    res = {"evals": 0, "keys": [], "interleavings": [], "stats": {"pinned_known_finding_runs": 1},
           "sim_seconds": 0.0, "violations": [], "events_sha": None}
    ref = reference_run(sc, workdir)
    common.purge_scratch()
    res["evals"] += 1
    if ref.error is not None:
        return res
    cfg = sc["runs"][0]
    t = _mk_tape(cfg, replay=[])
    cl, rr = exec_compare_run(sc, cfg, t, workdir, ref.front)
    common.purge_scratch()
    res["evals"] += 1
    for vclass, detail in cl.items():
        key = f"W={cfg['W']}"
        if vclass == "representative" and attributed_to_split(sc, [], workdir, ref.front, vclass):
            key = "split_in_half"
        res["violations"].append(_violation(vclass, key, detail + " [pinned input of a recorded finding]",
                                            sc, 0, cfg, t))
        break
    res["events_sha"] = t.event_digest()
    return res


def _simplify_run(sc):
    runs = sc["runs"]
    # drop history first
    if len(runs) > 1:
        yield dict(sc, runs=runs[-1:])
        for i in range(len(runs) - 1):
            yield dict(sc, runs=runs[:i] + runs[i + 1:])
    cfg = runs[-1]

    def w(**kw):
        return dict(sc, runs=runs[:-1] + [dict(cfg, **kw)])
    if cfg.get("prewarm"):
        yield w(prewarm=None)
    if cfg["clock_jumpy"]:
        yield w(clock_jumpy=False)
    if cfg["cache_mode"] != "keep":
        yield w(cache_mode="keep")
    if cfg["exec_shuffle"]:
        yield w(exec_shuffle=False)
    if cfg["order_mode"] != "durations":
        yield w(order_mode="durations")
    if cfg["W"] > 2:
        yield w(W=2)


def replay(rp, ctx):
    from sim import common
    workdir = common.scratch_root()
    sc = rp["scenario"]
    if rp.get("kind") == "hashseed":
        # first interpreter: W=1 reference; second interpreter (other hash seed): the W=4 replica run
        ref = reference_run(sc, workdir)
        from sim import canon
        if ref.error is not None:
            return {"violations": [], "xdigest": {"front": "ref_error:" + type(ref.error).__name__}}
        first = ref.front[0] if isinstance(ref.front, list) else ref.front
        return {"violations": [], "xdigest": {"front": canon.sha(first)}}
    if sc["mode"] == "cache":
        from checks import c20_cache
        return c20_cache.replay(rp, ctx, workdir)
    if sc["mode"] == "fault":
        from checks import c20_fault
        return c20_fault.replay(rp, ctx, workdir)
    ref = reference_run(sc, workdir)
    common.purge_scratch()
    viols = []
    if ref.error is not None:
        return {"violations": [], "events_sha": None, "note": f"reference raised {ref.error!r}"}
    if not sc["runs"]:
        from sim import canon
        if isinstance(ref.front, list) and len(ref.front) == 2:
            c = canon.compare_fronts(ref.front[0], ref.front[1])
            if c:
                viols.append({"class": f"history_{c[0]}", "key": "", "detail": c[1]})
        return {"violations": viols, "events_sha": ref.tape.event_digest()}
    classes, rr, t = exec_prefix(sc, rp["tape"], workdir, ref.front)
    for cls, detail in classes.items():
        viols.append({"class": cls, "key": cls, "detail": detail})
    return {"violations": viols, "events_sha": t.event_digest()}
