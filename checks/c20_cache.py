"""C20, on-disk cache histories: one cache_dir, a sequence of mapper calls over it, disk
faults between steps.  Oracle per step: the call raises, or its front equals the null-schedule
reference front of *that step's spec* (never a front served from another spec's entry, never a
front built from a damaged entry)."""
from __future__ import annotations

import copy
import hashlib
import os
import random
import shutil


def _variant(params, r):
    """A' differs from A in exactly one field."""
    p = copy.deepcopy(params)
    which = r.choice(["metrics", "energy", "size", "bound"] + (["energy"] * 4 if p.get("use_vars") else []))
    if which == "metrics":
        from sim.specgen import METRIC_SETS
        opts = [m for m in METRIC_SETS if m != p["metrics"]]
        p["metrics"] = r.choice(opts)
    elif which == "energy":
        p["glb_energy"] = p["glb_energy"] * 2 + 1
    elif which == "size":
        p["glb_size"] = "inf" if p["glb_size"] != "inf" else 10 ** 6
    else:
        p["M"] = {2: 3, 3: 4, 4: 6, 6: 4, 8: 6, 12: 8}[p["M"]]
    return p, which


def _entries(cache_dir):
    out = []
    for root, _, files in os.walk(cache_dir):
        for f in files:
            out.append(os.path.join(root, f))
    return sorted(out)


def _inject_disk_fault(cache_dir, kind, r, stats):
    files = _entries(cache_dir)
    outs = [f for f in files if f.endswith("output.pkl")]
    metas = [f for f in files if f.endswith("metadata.json")]
    if kind == "torn" and outs:
        f = r.choice(outs)
        size = os.path.getsize(f)
        cut = r.choice([0, 1, size // 2, max(0, size - 1), max(0, size - 17)])
        with open(f, "r+b") as fh:
            fh.truncate(cut)
        stats["disk_fault_torn"] = stats.get("disk_fault_torn", 0) + 1
        return f"torn:{os.path.basename(os.path.dirname(f))}@{cut}/{size}"
    if kind == "flip" and outs:
        f = r.choice(outs)
        size = os.path.getsize(f)
        if size:
            pos = r.randrange(size)
            with open(f, "r+b") as fh:
                fh.seek(pos)
                b = fh.read(1)
                fh.seek(pos)
                fh.write(bytes([b[0] ^ 0xFF]))
            stats["disk_fault_flip"] = stats.get("disk_fault_flip", 0) + 1
            return f"flip@{pos}/{size}"
    if kind == "lost_output" and outs:
        os.unlink(r.choice(outs))
        stats["disk_fault_lost"] = stats.get("disk_fault_lost", 0) + 1
        return "lost_output"
    if kind == "lost_meta" and metas:
        os.unlink(r.choice(metas))
        stats["disk_fault_lost"] = stats.get("disk_fault_lost", 0) + 1
        return "lost_meta"
    if kind == "stale_tmp":
        for d in {os.path.dirname(f) for f in outs}:
            with open(os.path.join(d, "output.pkl.thread-1-pid-1"), "wb") as fh:
                fh.write(b"\x80\x04garbage")
        stats["disk_fault_stale_tmp"] = stats.get("disk_fault_stale_tmp", 0) + 1
        return "stale_tmp"
    return None


class _ENOSPC:
    """Make the k-th cache write fail with ENOSPC (patched on joblib's store backend)."""

    def __init__(self, k):
        self.k = k
        self.n = 0
        self.fired = 0

    def __enter__(self):
        from joblib._store_backends import FileSystemStoreBackend as B
        self.B = B
        self.orig = B.__dict__["_open_item"]  # staticmethod(open)
        real_open = open
        me = self

        def _open_item(f, mode="r", *a, **kw):
            if "w" in mode:
                me.n += 1
                if me.n == me.k:
                    me.fired += 1
                    raise OSError(28, "No space left on device (injected)")
            return real_open(f, mode, *a, **kw)
        B._open_item = staticmethod(_open_item)
        return self

    def __exit__(self, *exc):
        self.B._open_item = self.orig
        return False


def plan_history(sc):
    r = random.Random(sc["aux_seed"])
    A = sc["params"]
    B, which = _variant(A, r)
    steps = [("A", None)]
    n = r.choice([3, 4, 5])
    for _ in range(n - 1):
        spec = r.choice(["A", "A", "B", "B"])
        fault = r.choice([None, None, None, "torn", "flip", "lost_output", "lost_meta", "stale_tmp", "enospc"])
        steps.append((spec, fault))
    plan = {"A": A, "B": B, "variant_field": which, "steps": steps, "fault_seed": r.getrandbits(32)}
    # drawn last.  A step may be preceded by the *user* fetching the pmappings through the same
    # cache_dir and editing the object they were handed (drop_einsums is in place): what the cache
    # serves to the next call must not depend on what a caller did to an earlier answer.
    plan["user_edit"] = [r.random() < 0.3 for _ in steps]
    return plan


def run_history(seed, sc, ctx, workdir, replay_tapes=None, upto=None):
    from checks import c20 as C
    from sim import common, canon
    plan = plan_history(sc)
    res = {"evals": 0, "keys": [], "interleavings": [], "stats": {"cache_dir_histories": 1},
           "sim_seconds": 0.0, "violations": [], "events_sha": None, "xdigest": None}
    st = res["stats"]
    refs = {}
    for name in ("A", "B"):
        if any(s[0] == name for s in plan["steps"]):
            rr = C.run_mapper(plan[name], None, C._mk_tape(None), C.body_map, workdir)
            res["evals"] += 1
            common.purge_scratch()
            if rr.error is not None:
                st["ref_error_scenarios"] = 1
                res["events_sha"] = "ref_error"
                res["xdigest"] = {"front": "ref_error:" + type(rr.error).__name__}
                return res
            refs[name] = rr.front
    res["xdigest"] = {"front": canon.sha(refs["A"])}
    res["replay_base"] = {"scenario": {"params": sc["params"], "mode": "map", "aux_seed": sc["aux_seed"],
                                       "runs": []}}
    if ctx.get("role", 0) == 1:
        res["events_sha"] = canon.sha(refs["A"])
        return res
    cache_dir = os.path.join(workdir, "cache_dir")
    shutil.rmtree(cache_dir, ignore_errors=True)
    os.makedirs(cache_dir)
    fr = random.Random(plan["fault_seed"])
    shas, tapes = [], []
    seen_specs = set()
    dirty = None  # a damaged directory stays damaged for later steps
    try:
        for si, (name, fault) in enumerate(plan["steps"]):
            if upto is not None and si > upto:
                break
            cfg = sc["runs"][si % len(sc["runs"])]
            tape = C._mk_tape(cfg, replay=replay_tapes[si] if replay_tapes else None)
            fault_desc = None
            enospc = None
            if fault == "enospc":
                enospc = _ENOSPC(fr.choice([1, 2, 3]))
            elif fault is not None:
                fault_desc = _inject_disk_fault(cache_dir, fault, fr, st)
            if fault_desc is None and dirty is not None:
                fault_desc = "earlier:" + dirty

            user_edit = bool(plan.get("user_edit", [False] * (si + 1))[si])

            def body(spec, _cd=cache_dir, _edit=user_edit):
                ffm = C._S["ffm"]
                if _edit:
                    try:
                        pm = ffm.make_pmappings(spec, cache_dir=_cd, print_progress=False)
                        names = list(pm.einsum2pmappings)
                        if len(names) > 1:
                            pm.drop_einsums(names[-1])  # the user's own object, edited in place
                            st["cache_user_edit_steps"] = st.get("cache_user_edit_steps", 0) + 1
                    except Exception:
                        # a damaged directory may make this fetch fail; the step's own call is
                        # judged below by the usual (relaxed under faults) oracle
                        st["cache_user_fetch_failed"] = st.get("cache_user_fetch_failed", 0) + 1
                return ffm.map_workload_to_arch(spec, print_progress=False, cache_dir=_cd)

            if enospc is not None:
                with enospc:
                    rr = C.run_mapper(plan[name], cfg, tape, body, workdir)
                if enospc.fired:
                    st["disk_fault_enospc"] = st.get("disk_fault_enospc", 0) + 1
                    fault_desc = f"enospc@write{enospc.k}"
            else:
                rr = C.run_mapper(plan[name], cfg, tape, body, workdir)
            if fault_desc is not None and not fault_desc.startswith("earlier:"):
                dirty = fault_desc
            common.purge_scratch(keep=("cache_dir",))
            res["evals"] += 1
            res["sim_seconds"] += rr.sim.now
            for k, v in C._stats_of(rr, cfg).items():
                if v:
                    st[k] = st.get(k, 0) + v
            tapes.append(tape.values())
            shas.append(tape.event_digest())
            made = any("make_pmappings.py" in c.site for c in rr.sim.calls) or cfg["W"] == 1
            recomputed = any("make_pmappings" in c.site for c in rr.sim.calls)
            if name in seen_specs and cfg["W"] > 1 and not recomputed and rr.error is None and not fault_desc:
                st["cache_warm_hit"] = st.get("cache_warm_hit", 0) + 1
            if name == "B" and "A" in seen_specs and rr.error is None:
                st["cache_variant_not_served_stale"] = st.get("cache_variant_not_served_stale", 0) + 1
            seen_specs.add(name)
            sig = rr.sim.delivery_signature()
            res["interleavings"].append(hashlib.sha1(repr(sig).encode()).hexdigest()[:16])
            if rr.error is not None:
                if fault_desc is None:
                    res["violations"].append(_viol(
                        "cache_exception", f"step{si}:{name}", f"history step {si} (map {name}, no fault "
                        f"injected) raised {type(rr.error).__name__}: {str(rr.error)[:300]}",
                        sc, plan, si, tapes))
                    break
                st["disk_fault_detected_or_recomputed"] = st.get("disk_fault_detected_or_recomputed", 0) + 1
                continue
            c = canon.compare_fronts(refs[name], rr.front)
            if fault_desc is not None and not c:
                st["disk_fault_detected_or_recomputed"] = st.get("disk_fault_detected_or_recomputed", 0) + 1
            if c and c[0] == "representative" and cfg["W"] > 1 and _split_only(C, plan[name], cfg, workdir, refs[name]):
                res["violations"].append(_viol(
                    "cache_representative", "split_in_half", f"history step {si} map({name}): {c[1]} "
                    "[disappears when the join's worker-count dependent group splitting is disabled]",
                    sc, plan, si, tapes))
                break
            if c:
                other = "B" if name == "A" else "A"
                stale = other in refs and canon.compare_fronts(refs[other], rr.front) is None
                res["violations"].append(_viol(
                    f"cache_{c[0]}", f"step{si}:{name}:{fault or 'nofault'}",
                    f"history {[s for s in plan['steps'][:si + 1]]} (user edited an earlier answer "
                    f"before steps {[i for i, e in enumerate(plan.get('user_edit', [])[:si + 1]) if e]}; "
                    f"B = A with {plan['variant_field']} "
                    f"changed): step {si} map({name}) with cache_dir returned a front different from the "
                    f"reference of {name}" + (" -- it equals the reference of the OTHER spec (stale entry "
                    "served)" if stale else "") + f"; fault before step: {fault_desc}; {c[1]}",
                    sc, plan, si, tapes))
                break
            res["keys"].append(hashlib.sha1(repr((plan[name], si, name, fault_desc, cfg["W"], sig)).encode())
                               .hexdigest()[:16])
    finally:
        shutil.rmtree(cache_dir, ignore_errors=True)
    res["events_sha"] = hashlib.sha1("".join(shas).encode()).hexdigest()
    if seed % 5 == 0 or ctx.get("want_sample"):
        res["sample"] = {"seed": seed, "mode": "cache", "spec_params": plan["A"],
                         "variant_field": plan["variant_field"], "steps": plan["steps"]}
    return res


def _split_only(C, params, cfg, workdir, ref_front):
    """Known finding by call site: the difference is there without cache_dir too, and goes away
    when only the join's fan-out splitting is disabled."""
    from sim import canon, common
    rr = C.run_mapper(params, cfg, C._mk_tape(cfg, replay=[]), C.body_map, workdir)
    common.purge_scratch(keep=("cache_dir",))
    if rr.error is not None or not canon.compare_fronts(ref_front, rr.front):
        return False
    with C._NoJoinSplit():
        rr2 = C.run_mapper(params, cfg, C._mk_tape(cfg, replay=[]), C.body_map, workdir)
    common.purge_scratch(keep=("cache_dir",))
    return rr2.error is None and canon.compare_fronts(ref_front, rr2.front) is None


def _viol(cls, key, detail, sc, plan, step, tapes):
    return {"class": cls, "key": f"{cls}|{key}", "detail": detail,
            "replay": {"scenario": {"params": sc["params"], "mode": "cache", "aux_seed": sc["aux_seed"],
                                    "runs": sc["runs"]},
                       "step": step, "tapes": tapes, "tape": []}}


def replay(rp, ctx, workdir):
    sc = rp["scenario"]
    res = run_history(rp.get("seed", 0), sc, {"role": 0, "cfg": {}}, workdir,
                      replay_tapes=rp["tapes"], upto=rp["step"])
    return {"violations": [{"class": v["class"], "key": v["key"], "detail": v["detail"]}
                           for v in res["violations"]], "events_sha": res["events_sha"]}
