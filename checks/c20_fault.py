"""C20, fault-injecting sub-batch (kept apart from the fault-free runs so that the relaxed
oracle can never hide an ordinary wrong answer).

Faults: a tape-chosen job of a tape-chosen parallel() call fails at completion
(worker death / MemoryError); the mapping.svg write inside the detailed evaluation fails
(OSError).  Oracle: the mapper call raises, or -- where the code promises to tolerate the
failure (dirty join rounds) -- returns exactly the reference front.  Never a different front.
"""
from __future__ import annotations

import builtins
import hashlib
import random


class _SvgFault:
    def __init__(self, k):
        self.k = k
        self.n = 0
        self.fired = 0

    def __enter__(self):
        from checks import c20 as C
        self.mod = C._S["ffm"]
        me = self

        def fake_open(file, mode="r", *a, **kw):
            if isinstance(file, str) and file.endswith("mapping.svg") and "w" in mode:
                me.n += 1
                if me.n == me.k:
                    me.fired += 1
                    raise OSError(28, "No space left on device (injected, mapping.svg)")
            return builtins.open(file, mode, *a, **kw)
        self.mod.open = fake_open
        return self

    def __exit__(self, *exc):
        try:
            del self.mod.open
        except AttributeError:
            pass
        return False


def run_fault_scenario(seed, sc, ctx, workdir, replay_tape=None):
    from checks import c20 as C
    from sim import common, canon, executor as ex
    res = {"evals": 0, "keys": [], "interleavings": [], "stats": {}, "sim_seconds": 0.0,
           "violations": [], "events_sha": None, "xdigest": None}
    st = res["stats"]
    ref = C.run_mapper(sc["params"], None, C._mk_tape(None), C.body_map, workdir)
    res["evals"] += 1
    common.purge_scratch()
    if ref.error is not None:
        st["ref_error_scenarios"] = 1
        res["events_sha"] = "ref_error"
        res["xdigest"] = {"front": "ref_error:" + type(ref.error).__name__}
        return res
    res["xdigest"] = {"front": canon.sha(ref.front)}
    res["replay_base"] = {"scenario": {"params": sc["params"], "mode": "map", "aux_seed": sc["aux_seed"],
                                       "runs": []}}
    if ctx.get("role", 0) == 1:
        res["events_sha"] = canon.sha(ref.front)
        return res
    r = random.Random(sc["aux_seed"])
    kind = r.choice(["job", "job_death", "job_memerr", "svg"])
    cfg = dict(sc["runs"][0])
    if cfg["W"] == 1:
        cfg["W"] = 2  # job faults need the executor seam
    # probe run (fault free, same schedule) to learn how many calls / jobs there are
    n_calls_target = r.randrange(0, 14)
    job_target = r.randrange(0, 64)
    state = {"fired": None}

    def job_fault(sim, rec, i):
        if state["fired"] is None and rec.index == n_calls_target % max(1, state.get("ncalls", 14)) \
                and i == job_target % rec.n_jobs:
            state["fired"] = (rec.index, rec.site, i)
            fk = {"job": "exception", "job_death": "worker_death", "job_memerr": "memory"}[kind]
            return ex.make_fault(fk, f"{fk} in job {i} of {rec.site}")
        return None

    tape = C._mk_tape(cfg, replay=replay_tape)
    svg = None
    if kind == "svg":
        svg = _SvgFault(r.choice([1, 1, 2, 3]))
        with svg:
            rr = C.run_mapper(sc["params"], cfg, tape, C.body_map, workdir)
        # under W>1 the job (and the shadowed open) run on a pickled copy: recognise the
        # injected error by its text as well
        fired = svg.fired > 0 or (rr.error is not None and "(injected, mapping.svg)" in str(rr.error))
        st["svg_write_fault_runs"] = int(fired)
        where = "mapping.svg write"
    else:
        rr = C.run_mapper(sc["params"], cfg, tape, C.body_map, workdir, job_fault=job_fault)
        fired = state["fired"] is not None
        st["job_fault_runs"] = int(fired)
        where = str(state["fired"])
    common.purge_scratch()
    res["evals"] += 1
    res["sim_seconds"] += rr.sim.now
    for k, v in C._stats_of(rr, cfg).items():
        if v:
            st[k] = st.get(k, 0) + v
    sig = rr.sim.delivery_signature()
    res["interleavings"].append(hashlib.sha1(repr(sig).encode()).hexdigest()[:16])
    res["events_sha"] = tape.event_digest()
    if rr.error is not None:
        if not fired:
            res["violations"].append(_viol("exception", "nofault", f"run without a fired fault raised "
                                           f"{type(rr.error).__name__}: {str(rr.error)[:300]}", sc, cfg, tape))
        else:
            st["job_fault_propagated"] = st.get("job_fault_propagated", 0) + 1
            res["keys"].append(hashlib.sha1(repr((sc["params"], where, sig)).encode()).hexdigest()[:16])
        return res
    c = canon.compare_fronts(ref.front, rr.front)
    if c and c[0] == "representative":
        from checks.c20_cache import _split_only
        if _split_only(C, sc["params"], cfg, workdir, ref.front):
            res["violations"].append(_viol("representative", "split_in_half", c[1] + " [disappears when the "
                                           "join's worker-count dependent group splitting is disabled]", sc, cfg, tape))
            return res
    if c:
        res["violations"].append(_viol(
            f"fault_{c[0]}", f"{kind}:{where}", f"fault {kind} at {where} did not make the call raise, and "
            f"the returned front differs from the reference: {c[1]}", sc, cfg, tape))
    elif fired:
        st["fault_tolerated_same_front"] = st.get("fault_tolerated_same_front", 0) + 1
        res["keys"].append(hashlib.sha1(repr((sc["params"], where, sig, "tolerated")).encode()).hexdigest()[:16])
    return res


def _viol(cls, key, detail, sc, cfg, tape):
    return {"class": cls, "key": f"{cls}|{key}", "detail": detail,
            "replay": {"scenario": {"params": sc["params"], "mode": "fault", "aux_seed": sc["aux_seed"],
                                    "runs": [cfg]}, "tape": tape.values(),
                       "events_sha": tape.event_digest()}}


def replay(rp, ctx, workdir):
    sc = rp["scenario"]
    res = run_fault_scenario(rp.get("seed", 0), sc, {"role": 0, "cfg": {}}, workdir,
                             replay_tape=rp["tape"])
    return {"violations": [{"class": v["class"], "key": v["key"], "detail": v["detail"]}
                           for v in res["violations"]], "events_sha": res["events_sha"]}
