"""C27 -- recomputing component costs on a costed spec changes nothing.

A Hypothesis rule-based state machine (run outside pytest, one PRNG value per seed)
generates an architecture and a *call history* on it: cost calls with flag subsets,
the process-boundary crossings the mapper itself performs between a user's call and
a worker's call (pickle, cloudpickle, deepcopy, model_copy, _memmap_read through the
disk, _clear_component_models, re-evaluation), and failures of the component-model
"service".  Oracle: whatever a kind of cost (area / leak / energy / throughput) was
when it was first computed on a chain of handles, every later cost call on that
chain returns exactly that.
"""
from __future__ import annotations

import hashlib
import json
import math
import os

PROPERTY = "C27"
TIERS = {
    "quick": dict(seeds=320, soft_s=150, hard_s=1200, per_seed_s=600, init_s=600, examples=25),
    "thorough": dict(seeds=6400, soft_s=1500, hard_s=3000, per_seed_s=900, init_s=600, examples=60),
}
RULE = ("one evaluation = one generated history (Hypothesis stateful example): a random architecture "
        "(2-5 components incl. containers with fanout; area/leak/energy/throughput given as numbers, as "
        "expressions over variables, or left to a fake in-process component model; random component and "
        "action scale factors and n_parallel_instances) followed by 1-8 operations drawn from cost(flags, "
        "einsum), crossing(kind), evaluate(einsum), fail_next_model_call. Non-trivial: the history contains "
        "a cost call on a handle on which at least one requested kind had already been computed (a repeat), "
        "and some involved scale factor or n_parallel_instances differs from 1. Distinct: SHA-1 of (params, ops).")
INTERLEAVING_MEASURE = "distinct op-kind sequences (history shapes)"
PROBES = ["second_cost_call", "third_cost_call", "crossing_before_repeat", "cross_pickle",
          "cross_cloudpickle", "cross_deepcopy", "cross_model_copy", "cross_memmap_disk",
          "cross_clear_models", "evaluate_before_repeat", "model_fault_fired", "model_fault_raised",
          "partial_flags_call", "fake_model_components", "expression_values", "nonunit_scale_histories",
          "evaluate_full", "evaluate_mapper_pre", "evaluate_mapper_post"]
REAL_VS_STUB = {
    "real": ["Spec.from_yaml / _spec_eval_expressions / calculate_component_costs",
             "Component.calculate_area/leak_power/action_energy/action_throughput",
             "hwcomponents.get_models/get_model selection", "pickle, cloudpickle, deepcopy, joblib dump/load (disk)"],
    "stub": ["component model library -> checks/c27_model.VerifFake (fails on demand)"],
}
ASSUMPTIONS = [
    "Hypothesis' generator samples histories of 1-4 cost calls with 0-4 crossings between; no exhaustive claim",
    "equality is math.isclose(rel_tol=1e-9) on numbers (None/inf compared exactly)",
]

KINDS = ("area", "energy", "throughput", "leak")
CROSSINGS = ("pickle", "cloudpickle", "deepcopy", "model_copy", "memmap_disk", "clear_models")


class Violation(Exception):
    def __init__(self, cls, detail):
        super().__init__(f"{cls}: {detail}")
        self.cls = cls
        self.detail = detail


_S = {}


def init(ctx):
    import accelforge  # noqa: F401
    from accelforge import Spec
    from accelforge.frontend.arch import Component
    from accelforge.util.parallel import _memmap_read
    import checks.c27_model as fm
    _S.update(Spec=Spec, Component=Component, memmap=_memmap_read, fm=fm)


# ------------------------------------------------------------------ spec text
def _fmt(v):
    if v is None:
        return "null"
    if isinstance(v, float) and math.isinf(v):
        return "inf"
    return str(v)


def spec_yaml(params) -> str:
    L = ["config:", "  use_installed_component_models: false", "variables:"]
    for k, v in params["variables"].items():
        L.append(f"  {k}: {_fmt(v)}")
    L += ["arch:", "  nodes:"]
    for c in params["components"]:
        if c.get("container_fanout"):
            L += [f"  - !Container", f"    name: Cont_{c['name']}", f"    spatial:",
                  f"    - {{name: X, fanout: {c['container_fanout']}}}"]
        L.append(f"  - !{c['kind']}")
        L.append(f"    name: {c['name']}")
        if c["kind"] == "Memory":
            L.append(f"    size: inf")
        if c["kind"] == "Toll":
            L.append(f"    direction: down")
        if c["kind"] in ("Memory", "Toll"):
            L.append("    tensors: {keep: All}" if c["name"] == "M0" else "    tensors: {keep: ~M0, may_keep: All}")
        if c["use_model"]:
            b = c["base"]
            L.append("    component_class: VerifFake")
            L.append("    extra_attributes_for_component_model: {base_area: %s, base_leak: %s, "
                     "base_energy: %s, base_throughput: %s}" % (b["area"], b["leak"], b["energy"], b["throughput"]))
        for f in ("area", "leak_power"):
            if c[f] is not None:
                L.append(f"    {f}: {_fmt(c[f])}")
        for f in ("area_scale", "leak_power_scale", "energy_scale", "throughput_scale",
                  "n_parallel_instances"):
            if c[f] != 1 or c.get("explicit_ones"):
                L.append(f"    {f}: {_fmt(c[f])}")
        L.append("    actions:")
        for a in c["actions"]:
            items = [f"name: {a['name']}"]
            for f in ("energy", "throughput"):
                if a[f] is not None:
                    items.append(f"{f}: {_fmt(a[f])}")
            for f in ("energy_scale", "throughput_scale"):
                if a[f] != 1:
                    items.append(f"{f}: {_fmt(a[f])}")
            L.append("    - {" + ", ".join(items) + "}")
    L += ["workload:", "  rank_sizes: {M: 8}", "  bits_per_value: {All: 8}", "  einsums:",
          "  - name: E0", "    tensor_accesses:", "    - {name: A, projection: [m]}",
          "    - {name: B, projection: [m], output: true}",
          "  - name: E1", "    tensor_accesses:", "    - {name: B, projection: [m]}",
          "    - {name: C, projection: [m], output: true}"]
    return "\n".join(L) + "\n"


# ------------------------------------------------------------------ interpreter
def _num_eq(a, b):
    if a is None or b is None or isinstance(a, str) or isinstance(b, str):
        return a == b
    try:
        if math.isinf(a) or math.isinf(b):
            return a == b
        return math.isclose(a, b, rel_tol=1e-9, abs_tol=0.0)
    except TypeError:
        return a == b


def observe(spec):
    out = {k: {} for k in KINDS}
    for c in spec.arch.get_nodes_of_type(_S["Component"]):
        out["area"][c.name] = {"area": c.area, "total_area": c.total_area}
        out["leak"][c.name] = {"leak_power": c.leak_power, "total_leak_power": c.total_leak_power}
        out["energy"][c.name] = {a.name: a.energy for a in c.actions}
        out["throughput"][c.name] = {a.name: a.throughput for a in c.actions}
    return out


def _diff(kind, snap, now):
    for comp, vals in snap.items():
        for k, v in vals.items():
            w = now.get(comp, {}).get(k, "<missing>")
            if not _num_eq(v, w):
                return f"{comp}.{k}: first computed {v!r}, now {w!r}"
    return None


class Handle:
    __slots__ = ("spec", "snap", "n_cost", "crossed", "only")

    def __init__(self, spec, snap, n_cost, crossed, only=None):
        self.spec = spec
        self.snap = snap  # kind -> snapshot at first computation on this chain
        self.n_cost = n_cost
        self.crossed = crossed  # crossings since last cost call
        self.only = only  # after _for_einsum: the one Einsum left in the workload


class Interp:
    def __init__(self, params, workdir):
        self.params = params
        self.stats = {}
        path = os.path.join(workdir, f"c27-{os.getpid()}.yaml")
        with open(path, "w") as f:
            f.write(spec_yaml(params))
        try:
            spec = _S["Spec"].from_yaml(path)
        finally:
            os.unlink(path)
        spec.config.component_models = [_S["fm"].VerifFake]
        self.handles = [Handle(spec, {}, 0, [])]
        fm = _S["fm"]
        fm.FAIL["n"] = 0
        self.nonunit = any(c[f] != 1 for c in params["components"]
                           for f in ("area_scale", "leak_power_scale", "energy_scale",
                                     "throughput_scale", "n_parallel_instances")) or \
            any(a[f] != 1 for c in params["components"] for a in c["actions"]
                for f in ("energy_scale", "throughput_scale"))
        self.repeat = False
        self._bump("fake_model_components", sum(1 for c in params["components"] if c["use_model"]))
        self._bump("expression_values", sum(1 for c in params["components"]
                                            for v in [c["area"], c["leak_power"]] +
                                            [a[f] for a in c["actions"] for f in ("energy", "throughput")]
                                            if isinstance(v, str)))

    def _bump(self, k, n=1):
        if n:
            self.stats[k] = self.stats.get(k, 0) + n

    def _h(self, i):
        return self.handles[i % len(self.handles)]

    def step(self, op):
        kind = op[0]
        if kind == "cost":
            return self._cost(*op[1:])
        if kind == "cross":
            return self._cross(*op[1:])
        if kind == "evaluate":
            return self._evaluate(*op[1:])
        if kind == "fail_next":
            _S["fm"].FAIL["n"] = 1
            return None
        raise ValueError(op)

    def _cost(self, hi, einsum, flags):
        fm = _S["fm"]
        h = self._h(hi)
        if h.only is not None:
            einsum = h.only
        flags = {k: bool(v) for k, v in zip(KINDS, flags)}
        before = observe(h.spec)
        fired0 = fm.FAIL["fired"]
        try:
            r = h.spec.calculate_component_costs(
                einsum_name=einsum, area=flags["area"], energy=flags["energy"],
                throughput=flags["throughput"], leak=flags["leak"])
        except Exception as e:
            fired = fm.FAIL["fired"] > fired0
            fm.FAIL["n"] = 0
            if not fired:
                if any(flags[k] and k in h.snap for k in KINDS):
                    # a *repeat* call that raises does not "return the same" costs
                    raise Violation("repeat_call_raised",
                                    f"cost call #{h.n_cost + 1} raised {type(e).__name__}: {str(e)[:200]}")
                self._bump("first_call_raised")  # generated input the repo rejects: not C27's business
                return None
            self._bump("model_fault_fired")
            self._bump("model_fault_raised")
            after = observe(h.spec)
            if any(_diff(k, before[k], after[k]) for k in h.snap):
                self._bump("input_mutated_on_failure")
            return None
        fired = fm.FAIL["fired"] > fired0
        fm.FAIL["n"] = 0
        if fired:
            self._bump("model_fault_fired")
            self._bump("model_fault_swallowed")  # allowed: whatever was returned is judged below
        now = observe(r)
        after = observe(h.spec)
        requested = [k for k in KINDS if flags[k]]
        is_repeat = any(k in h.snap for k in requested)
        if is_repeat:
            self.repeat = True
            self._bump("second_cost_call" if h.n_cost == 1 else "third_cost_call" if h.n_cost >= 2 else "second_cost_call")
            if h.crossed:
                self._bump("crossing_before_repeat")
                if "evaluate" in h.crossed:
                    self._bump("evaluate_before_repeat")
        if 0 < len(requested) < 4:
            self._bump("partial_flags_call")
        # already-costed kinds must be unchanged in the result, whether requested again or not
        for k, snap in h.snap.items():
            d = _diff(k, snap, now[k])
            if d:
                which = "recomputed" if flags[k] else "not_requested"
                raise Violation(f"changed:{k}", f"cost call #{h.n_cost + 1} ({which}; crossings since last "
                                f"call: {h.crossed}) {d}")
        # A call that changes the costs stored on its *input* is recorded only: the statement is
        # about what a call returns, and a corrupted input is judged when it is used again (its
        # later results are compared with the snapshot of the first computation).
        if any(_diff(k, before[k], after[k]) for k in h.snap):
            self._bump("input_costs_mutated_by_call")
        snap = dict(h.snap)
        for k in requested:
            if k not in snap:
                snap[k] = now[k]
        if r is not h.spec or requested:
            self.handles.append(Handle(r, snap, h.n_cost + (1 if requested else 0), [], h.only))
        return None

    def _cross(self, hi, how):
        import copy
        import pickle
        import cloudpickle
        h = self._h(hi)
        s = h.spec
        if how == "pickle":
            r = pickle.loads(pickle.dumps(s))
        elif how == "cloudpickle":
            r = cloudpickle.loads(cloudpickle.dumps(s))
        elif how == "deepcopy":
            r = copy.deepcopy(s)
        elif how == "model_copy":
            r = s.model_copy()
        elif how == "memmap_disk":
            r = _S["memmap"](s)
        elif how == "clear_models":
            r = s._clear_component_models()
        else:
            raise ValueError(how)
        self._bump("cross_" + how)
        self.handles.append(Handle(r, dict(h.snap), h.n_cost, h.crossed + [how], h.only))

    def _evaluate(self, hi, einsum, how="full"):
        """Re-evaluation the way the mapper does it between a user's cost call and its own.
        full        : spec._spec_eval_expressions(einsum_name=e)
        mapper_pre  : make_pmappings + get_jobs: non-arch evaluation, then arch evaluation for e
        mapper_post : get_jobs after costing: _for_einsum(e)._clear_component_models(), through
                      _memmap_read (disk)"""
        h = self._h(hi)
        if h.only is not None:
            einsum = h.only
        only = h.only
        if how == "full":
            r = h.spec._spec_eval_expressions(einsum_name=einsum)
        elif how == "mapper_pre":
            e = einsum or "E0"
            r = h.spec._spec_eval_expressions(eval_arch=False, eval_non_arch=True)
            r = r._spec_eval_expressions(einsum_name=e, eval_arch=True, eval_non_arch=False)
        elif how == "mapper_post":
            if not getattr(h.spec, "_evaluated", False):
                return
            e = einsum or "E1"
            r = _S["memmap"](h.spec._for_einsum(e)._clear_component_models())
            only = e
        else:
            raise ValueError(how)
        self._bump("evaluate_" + how)
        self.handles.append(Handle(r, dict(h.snap), h.n_cost, h.crossed + ["evaluate"], only))


def run_history(params, ops, workdir):
    """Replay path (no Hypothesis): returns (violation or None, stats)."""
    it = Interp(params, workdir)
    try:
        for op in ops:
            it.step(op)
    except Violation as v:
        return v, it
    return None, it


# ------------------------------------------------------------------ generation
def _strategies():
    from hypothesis import strategies as st
    num = st.sampled_from([0.25, 0.5, 1, 1.5, 2, 3, 7, 10])
    scale = st.sampled_from([1, 1, 1, 2, 0.5, 3, 1.5, 4])
    npar = st.sampled_from([1, 1, 2, 4, 0.5, 3, 1.7])
    expr = st.sampled_from(["V0 * 2", "V1 + 1", "V0 + V1", "V0", "V1 * V1"])

    def value(allow_none):
        opts = [num, num, expr]
        if allow_none:
            opts.append(st.none())
        return st.one_of(*opts)

    @st.composite
    def component(draw, idx, kind, use_model):
        acts = {"Memory": ["read", "write"], "Toll": ["read"], "Compute": ["compute"]}[kind]
        c = {
            "kind": kind, "name": f"M{idx}" if kind != "Compute" else "MAC",
            "use_model": use_model,
            "base": {"area": draw(num), "leak": draw(num), "energy": draw(num), "throughput": draw(num)},
            "area": draw(value(use_model)), "leak_power": draw(value(use_model)),
            "area_scale": draw(scale), "leak_power_scale": draw(scale), "energy_scale": draw(scale),
            "throughput_scale": draw(scale), "n_parallel_instances": draw(npar),
            "container_fanout": draw(st.sampled_from([None, None, 2, 3])) if idx > 0 else None,
            "actions": [{"name": a, "energy": draw(value(use_model)), "throughput": draw(value(use_model)),
                         "energy_scale": draw(scale), "throughput_scale": draw(scale)} for a in acts],
        }
        return c

    @st.composite
    def params(draw):
        n_mid = draw(st.integers(0, 2))
        comps = [draw(component(0, "Memory", draw(st.booleans())))]
        for i in range(n_mid):
            comps.append(draw(component(i + 1, draw(st.sampled_from(["Memory", "Memory", "Toll"])),
                                        draw(st.booleans()))))
        comps.append(draw(component(n_mid + 1, "Compute", draw(st.booleans()))))
        return {"variables": {"V0": draw(st.sampled_from([2, 3, 5])), "V1": draw(st.sampled_from([1, 2, 4]))},
                "components": comps}

    flags = st.sampled_from([(1, 1, 1, 1)] * 4 + [(0, 1, 1, 1), (1, 0, 0, 0), (0, 1, 0, 0), (0, 0, 1, 0),
                                                   (0, 0, 0, 1), (1, 1, 0, 0), (0, 0, 1, 1), (0, 0, 0, 0)])
    einsum = st.sampled_from([None, None, "E0", "E1"])
    return params(), flags, einsum


_LAST = {"params": None, "ops": None, "violation": None, "t_first": None}
SHRINK_BUDGET_S = 45.0
_COUNT = {"examples": 0}


def _make_machine(workdir, agg):
    from hypothesis import strategies as st
    from hypothesis.stateful import RuleBasedStateMachine, initialize, rule, precondition
    params_st, flags_st, einsum_st = _strategies()
    hidx = st.integers(0, 7)

    class CostHistory(RuleBasedStateMachine):
        def __init__(self):
            super().__init__()
            self.it = None
            self.ops = []
            self.n_cost = 0

        @initialize(p=params_st)
        def setup(self, p):
            self.it = Interp(p, workdir)
            self.params = p
            _COUNT["examples"] += 1

        def _do(self, op):
            import time
            self.ops.append(op)
            if _LAST["t_first"] is not None and time.perf_counter() - _LAST["t_first"] > SHRINK_BUDGET_S:
                # shrink budget spent: let Hypothesis finish at once; the best real violation
                # recorded so far is what gets reported
                raise Violation("shrink_budget", "stop")
            try:
                self.it.step(op)
            except Violation as v:
                if _LAST["t_first"] is None:
                    _LAST["t_first"] = time.perf_counter()
                if _LAST["ops"] is None or len(self.ops) <= len(_LAST["ops"]):
                    _LAST.update(params=self.params, ops=list(self.ops), violation=(v.cls, v.detail))
                raise

        @precondition(lambda self: self.n_cost < 4)
        @rule(h=hidx, e=einsum_st, f=flags_st)
        def cost(self, h, e, f):
            self.n_cost += 1
            self._do(["cost", h, e, list(f)])

        @rule(h=hidx, how=st.sampled_from(CROSSINGS))
        def cross(self, h, how):
            self._do(["cross", h, how])

        @rule(h=hidx, e=einsum_st, how=st.sampled_from(["full", "mapper_pre", "mapper_pre", "mapper_post"]))
        def evaluate(self, h, e, how):
            self._do(["evaluate", h, e, how])

        @rule()
        def fail_next(self):
            self._do(["fail_next"])

        def teardown(self):
            if self.it is None:
                return
            for k, n in self.it.stats.items():
                agg["stats"][k] = agg["stats"].get(k, 0) + n
            if self.it.repeat and self.it.nonunit:
                agg["stats"]["nonunit_scale_histories"] = agg["stats"].get("nonunit_scale_histories", 0) + 1
                agg["keys"].add(hashlib.sha1(json.dumps([self.params, self.ops], sort_keys=True,
                                                        default=str).encode()).hexdigest()[:16])
            agg["shapes"].add(hashlib.sha1(repr([o[0] + (":" + str(o[2]) if o[0] == "cross" else "")
                                                 for o in self.ops]).encode()).hexdigest()[:16])
            if agg.get("sample") is None and self.it.repeat and len(self.ops) >= 3:
                agg["sample"] = {"params": self.params, "ops": self.ops}

    return CostHistory


def run_seed(seed, ctx):
    from hypothesis import settings, seed as hseed, HealthCheck, Phase
    from hypothesis.stateful import run_state_machine_as_test
    from sim import common
    workdir = common.scratch_root()
    agg = {"stats": {}, "keys": set(), "shapes": set(), "sample": None}
    _COUNT["examples"] = 0
    _LAST.update(params=None, ops=None, violation=None, t_first=None)
    Machine = _make_machine(workdir, agg)
    st = settings(max_examples=int(ctx["cfg"].get("examples", 25)), stateful_step_count=8,
                  database=None, deadline=None, report_multiple_bugs=False,
                  suppress_health_check=list(HealthCheck), phases=[Phase.generate, Phase.shrink],
                  derandomize=False, print_blob=False)
    viols = []
    try:
        run_state_machine_as_test(hseed(seed)(Machine), settings=st)
    except Violation:
        viols.append(_mk_violation(*_LAST["violation"]))
    except Exception as e:
        if _LAST["violation"] is not None:
            viols.append(_mk_violation(*_LAST["violation"]))  # e.g. Hypothesis' Flaky after the budget stop
        else:
            raise
    common.purge_scratch()
    res = {
        "evals": _COUNT["examples"], "keys": sorted(agg["keys"]),
        "interleavings": sorted(agg["shapes"]), "stats": agg["stats"],
        "sim_seconds": 0.0, "violations": viols,
        "events_sha": hashlib.sha1(json.dumps([sorted(agg["keys"]), sorted(agg["shapes"])]).encode()).hexdigest(),
    }
    if agg["sample"] is not None and (seed % 16 == 0 or ctx.get("want_sample")):
        res["sample"] = dict(agg["sample"], seed=seed)
    return res


def _mk_violation(cls, detail):
    # key identifies the failing call site by (kind of cost, how the repeat is reached)
    ops = _LAST["ops"] or []
    shape = "+".join(o[0] if o[0] != "cross" else f"cross:{o[2]}" for o in ops)
    return {"class": cls, "key": f"{cls}|{shape}", "detail": detail,
            "replay": {"params": _LAST["params"], "ops": ops}}


def replay(rp, ctx):
    from sim import common
    v, it = run_history(rp["params"], rp["ops"], common.scratch_root())
    viols = []
    if v is not None:
        viols.append({"class": v.cls, "key": v.cls, "detail": v.detail})
    return {"violations": viols, "events_sha": None}
