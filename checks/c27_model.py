"""Fake in-process hwcomponents "service" for C27 (importable => picklable by reference)."""
from hwcomponents import ComponentModel, action, ActionCost

FAIL = {"n": 0, "fired": 0, "instantiated": 0}


class InjectedModelFailure(RuntimeError):
    pass


class VerifFake(ComponentModel):
    priority = 0.9

    def __init__(self, base_area: float, base_leak: float, base_energy: float,
                 base_throughput: float):
        if FAIL["n"] > 0:
            FAIL["n"] -= 1
            FAIL["fired"] += 1
            raise InjectedModelFailure("injected: component model service failed")
        FAIL["instantiated"] += 1
        self.base_energy = base_energy
        self.base_throughput = base_throughput
        super().__init__(area=base_area, leak_power=base_leak)

    @action
    def read(self) -> ActionCost:
        return ActionCost(energy=self.base_energy, throughput=self.base_throughput,
                          latency=1 / self.base_throughput)

    @action
    def write(self) -> ActionCost:
        return ActionCost(energy=self.base_energy * 2, throughput=self.base_throughput / 2,
                          latency=2 / self.base_throughput)

    @action
    def compute(self) -> ActionCost:
        return ActionCost(energy=self.base_energy * 3, throughput=self.base_throughput * 3,
                          latency=1 / (3 * self.base_throughput))
