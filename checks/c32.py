"""C32 -- the parallel runner returns each job's result in job order.

System under test: accelforge.util.parallel.parallel (real), with joblib.Parallel
replaced by the deterministic SimParallel (sim/executor.py).
"""
from __future__ import annotations

import hashlib
import io
import os
import sys

PROPERTY = "C32"
TIERS = {
    "quick": dict(seeds=96000, soft_s=150, hard_s=420, per_seed_s=60, init_s=300),
    "thorough": dict(seeds=2_400_000, soft_s=1500, hard_s=2400, per_seed_s=60, init_s=300),
}
RULE = ("one evaluation = one call of accelforge.util.parallel.parallel on a generated job "
        "container (list or dict, 0-64 jobs, unique token per job) under one seeded schedule "
        "(W=1-16, per-job simulated durations incl. ties and stragglers, tie-breaks, lazy/eager "
        "consumption, optional injected job failure). Non-trivial: >=2 jobs, the executor seam "
        "was entered and the completion order was not the submission order (or a fault fired). "
        "Distinct: SHA-1 of (container kind, n, W, return mode, completion permutation, fault).")
INTERLEAVING_MEASURE = "distinct (n_jobs, W, mode, completion-order permutation) tuples"
PROBES = ["unordered_permuted", "straggler_overtaken", "ties_broken", "lazy_calls",
          "faults_job_exception", "dict_runs", "list_runs", "gen_runs", "unordered_runs",
          "after_fault_call_ok", "seam_entered", "sequential_path", "reverse_order_runs",
          "pbar_runs", "closure_jobs", "exact_once_checked", "fault_raised_to_caller",
          "fault_kind_exception", "fault_kind_worker_death", "fault_kind_memory", "preamble_calls"]
REAL_VS_STUB = {
    "real": ["accelforge.util.parallel.parallel / delayed / set_n_parallel_jobs",
             "cloudpickle round trip of every job and result", "tqdm progress bar"],
    "stub": ["joblib.Parallel + loky workers -> sim.executor.SimParallel (discrete-event, "
             "seeded; conformance-checked against real joblib in selftest)"],
}
ASSUMPTIONS = [
    "SimParallel reproduces joblib.Parallel's contract (ordered modes deliver in submission "
    "order, unordered mode delivers each result once in completion order, first failing job's "
    "exception is raised to the consumer); checked against real joblib 1.6 in selftest/conformance.py",
    "completion orders are those reachable with W FIFO workers and a 2W dispatch window, plus "
    "forced reverse/rotate orders",
]

EXEC = {}  # (run, i) -> times executed; module global, reached by reference from jobs


_FALSY = [None, 0, False, (), "", 0.0, [], {}]


def counted_job(run, i, falsy=-1):
    EXEC[(run, i)] = EXEC.get((run, i), 0) + 1
    if falsy >= 0:
        # a job is free to return None / 0 / an empty container: the runner must not use any of
        # them as a "no result yet" sentinel
        return _FALSY[falsy % len(_FALSY)]
    return ("tok", run, i)


def _same(a, b):
    return type(a) is type(b) and repr(a) == repr(b)


# arguments that compare and hash equal although they are different values
_EQARGS = [1, True, 1.0, 0, False, 0.0, -0.0, 2, 2.0]


def describe_job(run, x):
    return f"{run}:{type(x).__name__}:{x!r}"


TICKETS = {}


def ticket_job(run):
    # n *identical* jobs (same function, same arguments): every one of them is a job of its own
    # and its result is what its own execution returned
    TICKETS[run] = TICKETS.get(run, 0) + 1
    return ("ticket", run, TICKETS[run])


def _mk_closure(run, i, pad):
    def job(scale=1):
        return ("tok", run, i * scale)
    job.pad = pad
    return job


_P = None


def init(ctx):
    global _P
    import accelforge.util.parallel  # noqa: F401
    _P = sys.modules["accelforge.util.parallel"]
    from sim import executor  # noqa: F401


def _key_for(kind, j, rnd):
    if kind == 0:
        return f"k{j}"
    if kind == 1:
        return j * 7 + 3
    if kind == 2:
        return (j, f"e{j % 3}")
    if kind == 3:
        return ("k%d" % j, j * 7, (j, "e"))[j % 3]
    if kind == 4:  # distinct keys whose str() collide: 0, "0", 2, "2", ...
        return j if j % 2 == 0 else str(j - 1)
    # distinct keys with equal hashes (hash(-1) == hash(-2) in CPython) and a float among ints
    return (-1, -2, 0.5, True)[j] if j < 4 else j


def gen_scenario(seed):
    import random
    r = random.Random(seed)
    n = r.choice([0, 1, 2, 2, 3, 3, 4, 5, 6, 7, 8, 12, 16, 17, 31, 32, 33, 64])
    if r.random() < 0.3:
        n = r.randrange(0, 65)
    sc = {
        "n": n,
        "container": r.choice(["list", "list", "dict"]),
        "key_kind": r.randrange(4),
        "key_shuffle": r.random() < 0.7,
        "n_jobs": r.choice([None, None, 1, 2, 2, 3, 4, 5, 8, 13, 16, -1]),
        "W_default": r.choice([1, 2, 3, 4, 8, 16]),
        "return_as": r.choice([None, None, "generator", "generator_unordered"]),
        "pbar": r.random() < 0.15,
        "order_mode": r.choice(["durations"] * 5 + ["reverse", "rotate", "fifo"]),
        "exec_shuffle": r.random() < 0.2,
        "fn_kind": r.choice(["counted", "counted", "closure"]),
        "fault_at": (r.randrange(n) if n and r.random() < 0.2 else None),
        "fault_kind": r.choice(["exception", "worker_death", "worker_death", "memory"]),
        "p_nonzero": r.choice([1.0, 1.0, 0.5, 0.2]),
        "tape_seed": r.getrandbits(48),
        "as_iterator": r.random() < 0.15,  # jobs handed over as a one-shot generator
    }
    # drawn after everything else so that the fields above are what they were before these existed
    sc["falsy_mod"] = r.choice([0, 0, 0, 1, 2, 3])  # jobs with (i+tape_seed)%m==0 return a falsy value
    if r.random() < 0.3:
        sc["key_kind"] = r.choice([4, 5])
    if r.random() < 0.2:
        sc["fn_kind"] = r.choice(["eqargs", "ticket"])
    if sc["container"] == "dict":
        sc["return_as"] = None
    # call history: what the runner was used for earlier in this process.  The module is reloaded
    # at the start of every scenario, so that *all* history a verdict can depend on is in the
    # scenario (and hence in the replay file).
    sc["preamble"] = [{"kind": r.choice(["list", "dict", "unordered", "generator"]),
                       "n": r.choice([2, 3, 5]), "pbar": r.random() < 0.3, "n_jobs": r.choice([2, 3, 8])}
                      for _ in range(r.choice([0, 0, 1, 1, 2]))]
    return sc


def simplify(sc):
    """Candidate simpler scenarios (each differs in one aspect)."""
    n = sc["n"]
    for m in sorted({0, 1, 2, 3, n // 2, n - 1}):
        if 0 <= m < n:
            c = dict(sc, n=m)
            if c["fault_at"] is not None and c["fault_at"] >= m:
                c["fault_at"] = m - 1 if m else None
            yield c
    if sc["pbar"]:
        yield dict(sc, pbar=False)
    if sc["exec_shuffle"]:
        yield dict(sc, exec_shuffle=False)
    if sc["fn_kind"] not in ("counted", "eqargs", "ticket"):
        yield dict(sc, fn_kind="counted")
    if sc.get("as_iterator"):
        yield dict(sc, as_iterator=False)
    if sc["fault_at"] is not None:
        yield dict(sc, fault_at=None)
        if sc.get("fault_kind") != "exception":
            yield dict(sc, fault_kind="exception")
    if sc["key_shuffle"]:
        yield dict(sc, key_shuffle=False)
    if sc["key_kind"]:
        yield dict(sc, key_kind=0)
    if sc.get("falsy_mod"):
        yield dict(sc, falsy_mod=0)
    pre = sc.get("preamble") or []
    for i in range(len(pre)):
        yield dict(sc, preamble=pre[:i] + pre[i + 1:])
    for i, c in enumerate(pre):
        if c["pbar"]:
            yield dict(sc, preamble=pre[:i] + [dict(c, pbar=False)] + pre[i + 1:])
        if c["n"] > 2:
            yield dict(sc, preamble=pre[:i] + [dict(c, n=2)] + pre[i + 1:])
    if sc["n_jobs"] not in (None, 2):
        yield dict(sc, n_jobs=2)
    if sc["W_default"] != 2:
        yield dict(sc, W_default=2)


def execute(sc, tape, run_id=0):
    """Run one scenario; returns (violations, info)."""
    from sim import executor as ex
    import random
    P = _P
    n = sc["n"]
    viols = []

    def bad(cls, detail):
        viols.append({"class": cls, "key": cls, "detail": detail})

    tokens = [("tok", run_id, i) for i in range(n)]
    fm = sc.get("falsy_mod") or 0
    if sc["fn_kind"] == "counted":
        jobs = []
        for i in range(n):
            if fm and (i + sc["tape_seed"]) % fm == 0:
                k = (i * 5 + sc["tape_seed"]) % len(_FALSY)
                tokens[i] = _FALSY[k]
                jobs.append(P.delayed(counted_job)(run_id, i, falsy=k))  # kwargs path of a job
            else:
                jobs.append(P.delayed(counted_job)(run_id, i))
    elif sc["fn_kind"] == "eqargs":
        off = sc["tape_seed"] % len(_EQARGS)
        xs = [_EQARGS[(i + off) % len(_EQARGS)] for i in range(n)]
        jobs = [P.delayed(describe_job)(run_id, x) for x in xs]
        tokens = [describe_job(run_id, x) for x in xs]
    elif sc["fn_kind"] == "ticket":
        TICKETS.pop(run_id, None)
        one = P.delayed(ticket_job)(run_id)
        jobs = [one] * n if sc["tape_seed"] % 2 else [P.delayed(ticket_job)(run_id) for _ in range(n)]
        tokens = [("ticket", run_id, i + 1) for i in range(n)]  # as a multiset only, see oracle
    else:
        jobs = [P.delayed(_mk_closure(run_id, i, "x" * (i % 5)))() for i in range(n)]
    keys = None
    if sc["container"] == "dict":
        keys = [_key_for(sc["key_kind"], j, None) for j in range(n)]
        order = list(range(n))
        if sc["key_shuffle"]:
            random.Random(sc["tape_seed"] ^ 0x5EED).shuffle(order)
        jobs_in = {keys[j]: jobs[j] for j in order}
        expect_keys = [keys[j] for j in order]
        expect_vals = [tokens[j] for j in order]
    else:
        jobs_in = (j for j in jobs) if sc.get("as_iterator") else jobs

    fault_exc = ex.make_fault(sc.get("fault_kind", "exception"), f"failure in job {sc['fault_at']}")

    def job_fault(sim, rec, i):
        # dict jobs are re-wrapped; position i in the submitted list is what we target
        if sc["fault_at"] is not None and i == sc["fault_at"] and rec.index == n_pre_calls:
            return fault_exc
        return None

    sim = ex.Sim(tape, W=sc["W_default"], order_mode=sc["order_mode"],
                 exec_shuffle=sc["exec_shuffle"], job_fault=None)
    EXEC.clear()
    import importlib
    importlib.reload(P)  # fresh module state: history is what the scenario's preamble makes
    P.set_n_parallel_jobs(sc["W_default"])
    # ---- preamble (earlier use of the runner in this process), judged by the same oracle
    old_err0 = sys.stderr
    sys.stderr = io.StringIO()
    try:
        with ex.install(sim):
            for pi, pc in enumerate(sc.get("preamble") or []):
                m = pc["n"]
                pj = [P.delayed(counted_job)(run_id + 100 + pi, i) for i in range(m)]
                want = [("tok", run_id + 100 + pi, i) for i in range(m)]
                kw = {"n_jobs": pc["n_jobs"]}
                if pc["pbar"]:
                    kw["pbar"] = "pre"
                try:
                    if pc["kind"] == "dict":
                        got = P.parallel({f"p{i}": j for i, j in enumerate(pj)}, **kw)
                        ok = isinstance(got, dict) and [got.get(f"p{i}") for i in range(m)] == want
                    elif pc["kind"] == "unordered":
                        got = list(P.parallel(pj, return_as="generator_unordered", **kw))
                        ok = sorted(got) == sorted(want)
                    elif pc["kind"] == "generator":
                        got = list(P.parallel(pj, return_as="generator", **kw))
                        ok = got == want
                    else:
                        got = P.parallel(pj, **kw)
                        ok = got == want
                except Exception as e:
                    got, ok = f"{type(e).__name__}: {e}", False
                if not ok:
                    bad("preamble_" + pc["kind"], f"preamble call {pi} ({pc}) returned {str(got)[:200]}")
    finally:
        sys.stderr = old_err0
    if viols:
        return viols, {"entered": True, "fault_fired": False, "after_ok": None, "delivery": (), "sim": sim}
    n_pre_calls = len(sim.calls)
    sim.job_fault = job_fault
    kwargs = {}
    if sc["n_jobs"] is not None:
        kwargs["n_jobs"] = sc["n_jobs"]
    if sc["return_as"] is not None:
        kwargs["return_as"] = sc["return_as"]
    if sc["pbar"]:
        kwargs["pbar"] = "verif"
    eff_n_jobs = sc["n_jobs"] if sc["n_jobs"] not in (None, -1) else sc["W_default"]
    old_err = sys.stderr
    sys.stderr = io.StringIO()
    raised = None
    out = None
    try:
        with ex.install(sim):
            try:
                out = P.parallel(jobs_in, **kwargs)
                if sc["return_as"] in ("generator", "generator_unordered"):
                    out = list(out)
            except BaseException as e:
                if isinstance(e, (KeyboardInterrupt, SystemExit)):
                    raise
                raised = e
            # follow-up call on the same module must work (no state left behind)
            after_ok = None
            if raised is not None or sc["fault_at"] is not None:
                sim.job_fault = None
                follow = P.parallel([P.delayed(counted_job)(run_id + 1, i) for i in range(3)],
                                    n_jobs=max(2, eff_n_jobs))
                after_ok = follow == [("tok", run_id + 1, i) for i in range(3)]
    finally:
        sys.stderr = old_err
        P.set_n_parallel_jobs(os.cpu_count())

    main_calls = sim.calls[n_pre_calls:]
    entered = len(main_calls) > 0 and main_calls[0].n_jobs == n
    fault_fired = sim.stats["faults_job_exception"] > 0
    info = {"entered": entered, "fault_fired": fault_fired, "after_ok": None,
            "delivery": tuple(main_calls[0].delivery) if main_calls else (),
            "sim": sim}

    info["after_ok"] = after_ok
    if after_ok is False:
        bad("state_after_fault", "a parallel() call made after a failed one returned wrong results")
    if raised is not None:
        if fault_fired:
            info["fault_raised"] = True
            if not ex.is_injected(raised) and raised is not fault_exc:
                info["fault_replaced"] = True  # not C32's business which exception comes out
            return viols, info
        bad("unexpected_exception", f"parallel() raised {type(raised).__name__}: {raised}")
        return viols, info
    # No exception.  Either there was no fault, or the runner recovered from it (allowed): in
    # both cases whatever it returned must put every job's result in its own place.
    if fault_fired:
        info["fault_recovered"] = True

    # ---- oracle: token dictionary
    if sc["fn_kind"] == "ticket":
        vals = list(out.values()) if isinstance(out, dict) else out
        issued = TICKETS.get(run_id, 0)
        if not isinstance(vals, list) or len(vals) != n:
            bad("list_length", f"{n} identical jobs returned {str(out)[:120]}")
        elif len(set(map(repr, vals))) != n or any(
                not (isinstance(v, tuple) and len(v) == 3 and v[:2] == ("ticket", run_id)
                     and 1 <= v[2] <= issued) for v in vals):
            bad("identical_jobs", f"{n} identical jobs must each hold the result of an execution of "
                f"their own; got {str(vals)[:160]} ({issued} executions)")
        if sc["container"] == "dict" and isinstance(out, dict) and \
                set(map(repr, out.keys())) != set(map(repr, expect_keys)):
            bad("dict_keys", f"keys {list(out.keys())[:8]} are not the input keys {expect_keys[:8]}")
    elif sc["container"] == "dict":
        if not isinstance(out, dict):
            bad("dict_type", f"dict jobs returned {type(out).__name__}")
        else:
            if list(out.keys()) != expect_keys:
                # C32 says "map each key to its own job's result"; key *order* is relied upon by
                # callers (checked where it matters: C15, C20) but is not part of this property
                info["dict_key_order_differs"] = True
            if set(map(repr, out.keys())) != set(map(repr, expect_keys)):
                bad("dict_keys", f"keys {list(out.keys())[:8]} are not the input keys {expect_keys[:8]}")
            miss = object()
            wrong = [(k, out.get(k, miss), v) for k, v in zip(expect_keys, expect_vals)
                     if not _same(out.get(k, miss), v)]
            if wrong:
                bad("dict_value", f"key {wrong[0][0]!r} -> {wrong[0][1]!r}, expected {wrong[0][2]!r}")
    elif sc["return_as"] == "generator_unordered":
        if sorted(map(repr, out)) != sorted(map(repr, tokens)):
            bad("unordered_multiset", f"yielded {sorted(map(repr, out))[:6]}.. expected each of {n} results once")
    else:
        if not isinstance(out, list):
            bad("list_type", f"returned {type(out).__name__}")
        elif len(out) != n:
            bad("list_length", f"len {len(out)} != {n} jobs")
        else:
            wrong = [i for i in range(n) if not _same(out[i], tokens[i])]
            if wrong:
                i = wrong[0]
                bad("list_position", f"position {i} holds {out[i]!r}, expected {tokens[i]!r}; "
                    f"completion order {info['delivery'][:12]}")
    # ---- execution counts (diagnostic only: C32 speaks about positions, not about how often
    # a job ran; a runner that retries after a failure is allowed to run a job twice)
    if sc["fn_kind"] == "counted":
        cnt = [EXEC.get((run_id, i), 0) for i in range(n)]
        info["exact_once"] = all(c == 1 for c in cnt)
        info["not_once"] = sum(1 for c in cnt if c != 1)
    return viols, info


def _scenario_tape(sc, replay=None):
    from sim.tape import Tape
    if replay is not None:
        return Tape(replay=replay)
    return Tape(seed=sc["tape_seed"], p_nonzero=sc["p_nonzero"])


def run_seed(seed, ctx):
    from sim.minimize import minimize
    sc = gen_scenario(seed)
    tape = _scenario_tape(sc)
    viols, info = execute(sc, tape)
    sim = info["sim"]
    st = dict(sim.stats)
    st.pop("pickled_bytes", None)
    n = sc["n"]
    eff = sc["n_jobs"] if sc["n_jobs"] not in (None, -1) else sc["W_default"]
    st["seam_entered"] = int(info["entered"])
    st["sequential_path"] = int(not info["entered"])
    st["dict_runs"] = int(sc["container"] == "dict")
    st["list_runs"] = int(sc["container"] == "list" and sc["return_as"] is None)
    st["gen_runs"] = int(sc["return_as"] == "generator")
    st["unordered_runs"] = int(sc["return_as"] == "generator_unordered")
    st["after_fault_call_ok"] = int(bool(info.get("after_ok")))
    st["reverse_order_runs"] = int(sc["order_mode"] == "reverse" and info["entered"])
    st["pbar_runs"] = int(sc["pbar"])
    st["preamble_calls"] = len(sc.get("preamble") or [])
    st["iterator_jobs"] = int(bool(sc.get("as_iterator")) and sc["container"] == "list")
    st["n_jobs_minus_one"] = int(sc["n_jobs"] == -1)
    st["falsy_result_runs"] = int(bool(sc.get("falsy_mod")) and sc["fn_kind"] == "counted" and n > 0)
    st["colliding_key_runs"] = int(sc["container"] == "dict" and sc["key_kind"] in (4, 5) and n > 1)
    st["closure_jobs"] = int(sc["fn_kind"] == "closure")
    st["equal_but_distinct_arg_runs"] = int(sc["fn_kind"] == "eqargs" and n > 1)
    st["identical_job_runs"] = int(sc["fn_kind"] == "ticket" and n > 1)
    st["exact_once_checked"] = int(bool(info.get("exact_once")))
    st["dict_key_order_differs"] = int(bool(info.get("dict_key_order_differs")))
    st["jobs_not_run_exactly_once"] = int(info.get("not_once") or 0)
    st["fault_raised_to_caller"] = int(bool(info.get("fault_raised")))
    st["fault_recovered_by_runner"] = int(bool(info.get("fault_recovered")))
    st["fault_kind_" + sc.get("fault_kind", "exception")] = int(info["fault_fired"])
    d = info["delivery"]
    permuted = any(d[j] > d[j + 1] for j in range(len(d) - 1))
    nontrivial = n >= 2 and info["entered"] and (permuted or info["fault_fired"])
    ident = (sc["container"], n, eff, sc["return_as"], d, sc["fault_at"] if info["fault_fired"] else None)
    key = hashlib.sha1(repr(ident).encode()).hexdigest()[:16]
    res = {
        "evals": 1,
        "keys": [key] if nontrivial else [],
        "interleavings": [hashlib.sha1(repr((n, eff, sc["return_as"], d)).encode()).hexdigest()[:16]]
        if permuted else [],
        "stats": st,
        "sim_seconds": sim.now,
        "events_sha": tape.event_digest(),
        "violations": [],
    }
    if seed % 997 == 0 or (nontrivial and seed % 101 == 0) or ctx.get("want_sample"):
        res["sample"] = {"seed": seed, "scenario": {k: v for k, v in sc.items()},
                         "completion_order": list(d)[:40], "tape_draws": len(tape.record)}
    if viols:
        vclass = viols[0]["class"]

        def runner(sc2, tv):
            t = _scenario_tape(sc2, replay=tv)
            v2, _ = execute(sc2, t)
            return {v["class"] for v in v2}, t.values()

        msc, mtv, nruns = minimize(sc, tape.values(), runner, vclass, simplify,
                                   max_runs=300, max_s=30)
        t = _scenario_tape(msc, replay=mtv)
        v2, _ = execute(msc, t)
        v = next((x for x in v2 if x["class"] == vclass), viols[0])
        v = dict(v)
        v["replay"] = {"scenario": msc, "tape": mtv, "events_sha": t.event_digest(),
                       "original_scenario": sc, "minimize_runs": nruns,
                       "original_tape_nonzero": len(tape.nonzero_positions())}
        res["violations"] = [v]
    return res


def replay(rp, ctx):
    sc = rp["scenario"]
    t = _scenario_tape(sc, replay=rp["tape"])
    viols, info = execute(sc, t)
    return {"violations": viols, "events_sha": t.event_digest()}
