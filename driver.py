"""./check <ID> [--tier quick|thorough] [--replay file]

Shards seeds over fresh interpreters (one PYTHONHASHSEED each), merges results,
matches violations against known_findings.json, writes evidence/<ID>.json and
replay files.  Exit 0 held / 1 VIOLATION / 2 harness error or timeout.
"""
from __future__ import annotations

import argparse
import hashlib
import importlib
import json
import os
import re
import shutil
import subprocess
import sys
import tempfile
import time

VERIF = os.path.dirname(os.path.abspath(__file__))
PY = os.environ.get("VERIF_PYTHON", "/venv/bin/python")
sys.path.insert(0, VERIF)


def _hashseed(base: int, shard: int) -> int:
    return 1 + (base * 1009 + shard * 7919 + 17) % 4294967290


def _load_known(prop):
    p = os.path.join(VERIF, "known_findings.json")
    if not os.path.exists(p):
        return []
    with open(p) as f:
        d = json.load(f)
    return [e for e in d.get("findings", []) if e.get("property") == prop
            and e.get("status") == "known"]


def _matches(entry, v):
    if entry.get("class") and entry["class"] != v.get("class"):
        return False
    rx = entry.get("key_regex")
    if rx and not re.search(rx, v.get("key", "")):
        return False
    return True


def _mod_info(prop):
    """Read static metadata without importing heavy deps (modules keep them lazy)."""
    return importlib.import_module(f"checks.{prop.lower()}")


def run(prop: str, tier: str, base: int) -> int:
    mod = _mod_info(prop)
    cfg = dict(mod.TIERS[tier])
    nshards = int(os.environ.get("VERIF_SHARDS", min(16, os.cpu_count() or 1)))
    nshards = max(1, min(nshards, int(cfg["seeds"])))
    os.makedirs(os.path.join(VERIF, ".scratch"), exist_ok=True)
    run_dir = tempfile.mkdtemp(prefix=f"run-{prop}-", dir=os.path.join(VERIF, ".scratch"))
    t0 = time.perf_counter()
    procs = []
    try:
        for s in range(nshards):
            out = os.path.join(run_dir, f"shard{s}.jsonl")
            env = dict(os.environ)
            env["PYTHONHASHSEED"] = str(_hashseed(base, s))
            env["VERIF_SCRATCH"] = run_dir
            env["PYTHONDONTWRITEBYTECODE"] = "1"
            log = open(os.path.join(run_dir, f"shard{s}.log"), "w")
            p = subprocess.Popen(
                [PY, os.path.join(VERIF, "worker.py"), "run", prop, tier, str(s),
                 str(nshards), str(base), out],
                env=env, stdout=log, stderr=subprocess.STDOUT, cwd=run_dir)
            procs.append((s, p, out, log))
        hard = float(os.environ.get("VERIF_HARD_S", cfg["hard_s"]))
        harness_errors = []
        for s, p, out, log in procs:
            left = hard - (time.perf_counter() - t0)
            try:
                rc = p.wait(timeout=max(1.0, left))
            except subprocess.TimeoutExpired:
                p.kill()
                p.wait()
                rc = -9
                harness_errors.append(f"shard {s}: hard wall cap {hard}s hit")
            log.close()
            if rc != 0 and rc != -9:
                tail = open(os.path.join(run_dir, f"shard{s}.log")).read()[-3000:]
                harness_errors.append(f"shard {s}: exit {rc}\n{tail}")
        results, shard_done = [], []
        for s, p, out, log in procs:
            if not os.path.exists(out):
                continue
            with open(out) as f:
                for line in f:
                    try:
                        d = json.loads(line)
                    except ValueError:
                        continue
                    if "harness_error" in d:
                        harness_errors.append(f"shard {s}: {d['harness_error']}")
                    elif "shard_done" in d:
                        shard_done.append(d)
                    elif "seed" in d:
                        d["_hashseed"] = _hashseed(base, s)
                        results.append(d)
        wall = time.perf_counter() - t0
        return _finish(mod, prop, tier, base, cfg, nshards, results, shard_done,
                       harness_errors, wall)
    finally:
        for s, p, out, log in procs:
            if p.poll() is None:
                p.kill()
        shutil.rmtree(run_dir, ignore_errors=True)


def _finish(mod, prop, tier, base, cfg, nshards, results, shard_done, harness_errors, wall):
    results.sort(key=lambda d: (d["seed"], d.get("role", 0)))
    known = _load_known(prop)
    viols = []
    # cross-replica digests (same seed under two hash seeds)
    by_seed = {}
    for d in results:
        by_seed.setdefault(d["seed"], []).append(d)
    xpairs = 0
    for seed, ds in by_seed.items():
        if len(ds) == 2 and ds[0].get("xdigest") is not None and ds[1].get("xdigest") is not None:
            xpairs += 1
            a, b = ds[0]["xdigest"], ds[1]["xdigest"]
            for k in sorted(set(a) | set(b)):
                if a.get(k) != b.get(k):
                    hs = [ds[0]["_hashseed"], ds[1]["_hashseed"]]
                    viols.append({
                        "class": f"hashseed:{k}", "key": f"hashseed:{k}",
                        "detail": f"digest {k!r} differs between the primary interpreter "
                                  f"(PYTHONHASHSEED={hs[0]}: {a.get(k)}) and the replica interpreter "
                                  f"(PYTHONHASHSEED={hs[1]}: {b.get(k)}); " +
                                  getattr(mod, "REPLICA_NOTE", ""),
                        "seed": seed,
                        "replay": dict(ds[0].get("replay_base") or {}, kind="hashseed",
                                       hashseeds=hs, digest_key=k, seed=seed),
                        "_hashseed": hs[0]})
                    break
    for d in results:
        for v in d.get("violations", []):
            v = dict(v)
            v["seed"] = d["seed"]
            v["_hashseed"] = d["_hashseed"]
            viols.append(v)

    stats, keys, evals, nontrivial, sim_s = {}, set(), 0, 0, 0.0
    interleavings = set()
    samples = []
    for d in results:
        evals += int(d.get("evals", 0))
        sim_s += float(d.get("sim_seconds", 0.0))
        for k, n in (d.get("stats") or {}).items():
            stats[k] = stats.get(k, 0) + n
        keys.update(d.get("keys") or [])
        interleavings.update(d.get("interleavings") or [])
        if d.get("sample") is not None and len(samples) < 5 and d.get("role", 0) == 0:
            samples.append(d["sample"])

    if not samples:
        for d in results:
            if d.get("role", 0) == 0 and d.get("seed", -1) >= 0:
                samples.append({"seed": d["seed"], "note": "no check-level sample was emitted in this run; "
                                "this is the first explored seed with its counters",
                                "stats": d.get("stats"), "evals": d.get("evals")})
                break
    os.makedirs(os.path.join(VERIF, "replays"), exist_ok=True)
    new_lines, known_lines, seen = [], [], set()
    for v in viols:
        ent = next((e for e in known if _matches(e, v)), None)
        ident = (v.get("class"), v.get("key"))
        if ent is not None:
            line = f"KNOWN-FINDING: property={prop} {ent['what']}"
            if line not in known_lines:
                known_lines.append(line)
            continue
        if ident in seen:
            continue
        seen.add(ident)
        h = hashlib.sha1(repr(ident).encode()).hexdigest()[:8]
        path = os.path.join(VERIF, "replays", f"{prop}-{v['seed']}-{h}.json")
        rp = dict(v.get("replay") or {})
        rp.update({"property": prop, "violation_class": v.get("class"),
                   "key": v.get("key"), "detail": v.get("detail"),
                   "seed": v["seed"], "pythonhashseed": v["_hashseed"]})
        with open(path, "w") as f:
            json.dump(rp, f, indent=1, sort_keys=True, default=str)
        new_lines.append((f"VIOLATION property={prop} replay={path}", v))

    planned = sum(d["planned"] for d in shard_done)
    done = sum(d["done"] for d in shard_done)
    coverage = {
        "evaluations": evals,
        "distinct_nontrivial": len(keys),
        "rule": mod.RULE,
        "samples": samples,
        "seeds_planned": planned, "seeds_run": done,
        "shards": nshards,
        "hash_seeds": sorted({d["_hashseed"] for d in results}),
        "cross_hashseed_pairs_compared": xpairs,
        "runs_per_hour": round(evals / wall * 3600) if wall > 0 else 0,
        "seeds_per_hour": round(done / wall * 3600) if wall > 0 else 0,
        "simulated_seconds": round(sim_s, 3),
        "distinct_interleavings": len(interleavings),
        "interleaving_measure": getattr(mod, "INTERLEAVING_MEASURE", ""),
        "counters": dict(sorted(stats.items())),
        "real_vs_stub": getattr(mod, "REAL_VS_STUB", {}),
        "known_findings_reported": known_lines,
        "zero_probes": sorted(k for k in getattr(mod, "PROBES", []) if not stats.get(k)),
        "violating_seeds": len({v["seed"] for v in viols}),
    }
    ev = {
        "property_id": prop, "tier": tier, "seed": base, "level": "exploration",
        "coverage": coverage, "assumptions": list(getattr(mod, "ASSUMPTIONS", [])),
        "wall_s": round(wall, 2), "violations": len(new_lines),
    }
    if harness_errors:
        ev["coverage"]["harness_errors"] = [h[:500] for h in harness_errors]
    os.makedirs(os.path.join(VERIF, "evidence"), exist_ok=True)
    with open(os.path.join(VERIF, "evidence", f"{prop}.json"), "w") as f:
        json.dump(ev, f, indent=1, sort_keys=True, default=str)
        f.write("\n")

    print(f"[{prop}] tier={tier} seed={base} shards={nshards} seeds {done}/{planned} "
          f"evaluations={evals} distinct_nontrivial={len(keys)} "
          f"interleavings={len(interleavings)} wall={wall:.1f}s"
          + (f" violating_seeds={len({v['seed'] for v in viols})}" if viols else ""))
    for k in coverage["zero_probes"]:
        print(f"[{prop}] WARNING probe never fired: {k}")
    for line in known_lines:
        print(line)
    for line, v in new_lines[:20]:
        print(f"  class={v.get('class')} seed={v['seed']}: {str(v.get('detail'))[:600]}")
        print(line)
    if harness_errors:
        for h in harness_errors[:5]:
            print(f"[{prop}] HARNESS ERROR: {h[:3000]}", file=sys.stderr)
        if not new_lines:
            return 2
    if new_lines:
        return 1
    if done == 0 or evals == 0:
        print(f"[{prop}] HARNESS ERROR: nothing was explored", file=sys.stderr)
        return 2
    return 0


def replay(prop: str, path: str) -> int:
    with open(path) as f:
        rp = json.load(f)
    prop = rp.get("property", prop)
    os.makedirs(os.path.join(VERIF, ".scratch"), exist_ok=True)
    run_dir = tempfile.mkdtemp(prefix=f"replay-{prop}-", dir=os.path.join(VERIF, ".scratch"))
    try:
        hashseeds = rp.get("hashseeds") or [rp.get("pythonhashseed", 0)]
        outs = []
        for k, hs in enumerate(hashseeds):
            out = os.path.join(run_dir, f"replay{k}.jsonl")
            env = dict(os.environ)
            env["PYTHONHASHSEED"] = str(hs)
            env["VERIF_REPLAY_ROLE"] = str(k)
            env["VERIF_SCRATCH"] = run_dir
            env["PYTHONDONTWRITEBYTECODE"] = "1"
            p = subprocess.run([PY, os.path.join(VERIF, "worker.py"), "replay", prop,
                                os.path.abspath(path), out], env=env, cwd=run_dir,
                               stdout=subprocess.PIPE, stderr=subprocess.STDOUT, text=True)
            if p.returncode != 0:
                print(p.stdout[-3000:], file=sys.stderr)
                print(f"[{prop}] HARNESS ERROR: replay worker exit {p.returncode}",
                      file=sys.stderr)
                return 2
            with open(out) as f:
                outs.append(json.loads(f.readline()))
        for o in outs:
            if "harness_error" in o:
                print(o["harness_error"], file=sys.stderr)
                return 2
        if rp.get("kind") == "hashseed":
            k = rp["digest_key"]
            a = outs[0]["replay_result"]["xdigest"].get(k)
            b = outs[1]["replay_result"]["xdigest"].get(k)
            if a != b:
                print(f"  reproduced: digest {k!r} {a} != {b} under PYTHONHASHSEED {hashseeds}")
                print(f"VIOLATION property={prop} replay={path}")
                return 1
            print(f"[{prop}] replay did not reproduce (digests equal)")
            return 0
        res = outs[0]["replay_result"]
        vs = [v for v in res.get("violations", [])
              if v.get("class") == rp.get("violation_class")]
        if vs:
            v = vs[0]
            same = "" if not rp.get("events_sha") else (
                " event-log identical" if res.get("events_sha") == rp["events_sha"]
                else f" EVENT LOG DIFFERS ({res.get('events_sha')} vs {rp['events_sha']})")
            print(f"  reproduced class={v.get('class')}:{same} {str(v.get('detail'))[:800]}")
            print(f"VIOLATION property={prop} replay={path}")
            return 1
        print(f"[{prop}] replay did not reproduce the violation "
              f"(other classes seen: {[v.get('class') for v in res.get('violations', [])]})")
        return 0
    finally:
        shutil.rmtree(run_dir, ignore_errors=True)


def main():
    ap = argparse.ArgumentParser()
    ap.add_argument("prop")
    ap.add_argument("--tier", default=os.environ.get("VERIF_TIER", "quick"),
                    choices=["quick", "thorough"])
    ap.add_argument("--replay")
    a = ap.parse_args()
    base = int(os.environ.get("VERIF_SEED", "0") or 0)
    if a.prop == "selftest":
        from selftest import run_all
        return run_all.main([])
    if a.replay:
        return replay(a.prop.upper(), a.replay)
    return run(a.prop.upper(), a.tier, base)


if __name__ == "__main__":
    sys.exit(main())
