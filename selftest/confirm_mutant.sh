#!/bin/sh
# usage: confirm_mutant.sh <worktree> <patch.diff> <demo.py> <outdir> <test paths...>
# In a scratch worktree (never /repo): demo on clean tree (expect exit 0), apply patch, demo
# (expect non-zero), the given existing tests with the patch applied (junit xml), revert.
set -u
WT="$1"; PATCH="$(readlink -f "$2")"; DEMO="$(readlink -f "$3")"; OUT="$4"; shift 4
mkdir -p "$OUT"
cd "$WT" || exit 2
git checkout -q -- . || exit 2
export PYTHONPATH="$WT"
timeout 900 /venv/bin/python "$DEMO" > "$OUT/demo_clean.txt" 2>&1; echo "demo_clean_exit=$?" > "$OUT/confirm.txt"
git apply "$PATCH" || { echo "patch_applies=no" >> "$OUT/confirm.txt"; exit 2; }
timeout 900 /venv/bin/python "$DEMO" > "$OUT/demo_mutant.txt" 2>&1; echo "demo_mutant_exit=$?" >> "$OUT/confirm.txt"
if [ "$#" -gt 0 ]; then
  timeout 7200 /venv/bin/python -m pytest -q -p no:cacheprovider --timeout=1800 "$@" \
     --junitxml="$OUT/tests_mutant.xml" > "$OUT/tests_mutant.log" 2>&1
  echo "tests_exit=$?" >> "$OUT/confirm.txt"
  tail -1 "$OUT/tests_mutant.log" >> "$OUT/confirm.txt"
fi
git checkout -q -- .
cat "$OUT/confirm.txt"
