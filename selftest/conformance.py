"""Stub conformance: SimParallel vs real joblib.Parallel (loky) on trivial jobs.

Real processes are used here and only here; this is not part of any property verdict.
Checks the small contract the simulator relies on:
  * list / generator modes deliver in submission order
  * generator_unordered delivers each result exactly once
  * a failing job's exception reaches the consumer (type and args preserved)
  * arguments are copies for n_jobs>1, shared for n_jobs=1
  * results come back as copies for n_jobs>1
"""
from __future__ import annotations

import os
import sys

sys.path.insert(0, os.path.dirname(os.path.dirname(os.path.abspath(__file__))))
from sim import common  # noqa: E402

common.setup_process()

import joblib  # noqa: E402
from joblib import delayed  # noqa: E402

RealParallel = joblib.Parallel

from sim import executor as ex  # noqa: E402
from sim.tape import Tape  # noqa: E402


def sq(i):
    return i * i


def boom(i):
    if i == 3:
        raise ValueError("boom", i)
    return i


def mutate(d, i):
    d["touched"] = i
    return d


def observations(Par, label):
    obs = {}
    obs["list"] = Par(n_jobs=3)(delayed(sq)(i) for i in range(10))
    obs["gen"] = list(Par(n_jobs=3, return_as="generator")(delayed(sq)(i) for i in range(10)))
    obs["unordered_sorted"] = sorted(
        Par(n_jobs=3, return_as="generator_unordered")(delayed(sq)(i) for i in range(10)))
    obs["empty"] = Par(n_jobs=3)([])
    try:
        Par(n_jobs=2)(delayed(boom)(i) for i in range(6))
        obs["exc"] = None
    except Exception as e:
        obs["exc"] = (type(e).__name__, e.args)
    try:
        list(Par(n_jobs=2, return_as="generator_unordered")(delayed(boom)(i) for i in range(6)))
        obs["exc_unordered"] = None
    except Exception as e:
        obs["exc_unordered"] = (type(e).__name__, e.args)
    arg = {"x": 1}
    out = Par(n_jobs=2)([delayed(mutate)(arg, 0), delayed(mutate)(arg, 1)])
    obs["arg_mutated_n2"] = "touched" in arg
    obs["result_is_arg_n2"] = out[0] is arg
    arg = {"x": 1}
    out = Par(n_jobs=1)([delayed(mutate)(arg, 0), delayed(mutate)(arg, 1)])
    obs["arg_mutated_n1"] = "touched" in arg
    obs["result_is_arg_n1"] = out[0] is arg
    return obs


def main():
    real = observations(RealParallel, "real")
    bad = 0
    for seed in range(20):
        sim = ex.Sim(Tape(seed=seed), W=3)
        with ex.install(sim):
            got = observations(ex.SimParallel, "sim")
        if got != real:
            bad += 1
            for k in real:
                if real[k] != got.get(k):
                    print(f"  seed {seed} {k}: real={real[k]!r} sim={got.get(k)!r}")
    print(f"[selftest] conformance: real joblib {joblib.__version__} vs SimParallel on "
          f"{len(real)} observations x 20 schedules: {bad} mismatching schedules")
    try:
        from joblib.externals.loky import get_reusable_executor
        get_reusable_executor().shutdown(wait=True)
    except Exception:
        pass
    return 1 if bad else 0


if __name__ == "__main__":
    rc = main()
    sys.stdout.flush()
    sys.exit(rc)
