"""C32 demo: parallel() must return the i-th job's result at position i (and, for dict
input, map every key to its own job's result) for every job count, worker count and
completion order.

Run as:  cd <worktree> && PYTHONPATH=<worktree> /venv/bin/python _mutant/demo.py
Exits 0 if every case is correct, 1 otherwise.

joblib's executor is replaced by an in-process fake that runs the submitted tasks and
hands the results back in a forced completion order, so the run is deterministic and
fast. One case is repeated at the end with the real joblib executor.
"""
import random
import sys

import accelforge.util.parallel  # noqa: F401  (the attribute of accelforge.util is the function)

mod = sys.modules["accelforge.util.parallel"]
parallel, delayed = mod.parallel, mod.delayed
RealParallel = mod.Parallel

ORDER = "fifo"


class FakeParallel:
    """Stands in for joblib.Parallel. Ordered modes return results in submission order;
    "generator_unordered" yields them in the completion order selected by ORDER."""

    def __init__(self, n_jobs=None, return_as="list", **kw):
        self.n_jobs = n_jobs
        self.return_as = return_as

    def __call__(self, tasks):
        out = [func(*args, **kwargs) for func, args, kwargs in tasks]
        if self.return_as == "list":
            return out
        if self.return_as == "generator_unordered":
            if ORDER == "reverse":
                out = out[::-1]
            elif ORDER.startswith("shuffle"):
                random.Random(f"{ORDER}/{len(out)}/{self.n_jobs}").shuffle(out)
        return iter(out)


def job(i):
    return ("result of job", i)


def check(n, workers):
    """Returns a description of what went wrong, or None."""
    want = [job(i) for i in range(n)]
    got = parallel([delayed(job)(i) for i in range(n)], n_jobs=workers)
    if got != want:
        missing = [i for i in range(n) if i >= len(got) or got[i] != want[i]]
        return f"list: {len(got)} results for {n} jobs; wrong or missing positions {missing}"
    keys = [f"k{i}" for i in range(n)]
    random.Random(n).shuffle(keys)  # neither sorted nor in job order
    want = {k: job(i) for i, k in enumerate(keys)}
    got = parallel({k: delayed(job)(i) for i, k in enumerate(keys)}, n_jobs=workers)
    if got != want or list(got) != keys:
        return f"dict: wrong mapping for {n} keys"
    return None


mod.Parallel = FakeParallel
failures = []
for ORDER in ["fifo", "reverse", "shuffle-a", "shuffle-b"]:
    for workers in range(1, 17):
        for n in range(0, 65):
            problem = check(n, workers)
            if problem:
                failures.append((ORDER, workers, n, problem))
mod.Parallel = RealParallel

n_cases = 4 * 16 * 65
if failures:
    print(f"{len(failures)} of {n_cases} (order, workers, n_jobs) cases are wrong. First few:")
    for order, workers, n, problem in failures[:12]:
        print(f"  order={order:9s} workers={workers:2d} jobs={n:2d}: {problem}")
    bad = sorted({(w, n) for _, w, n, _ in failures})
    print("  failing (workers, jobs) pairs:", bad)
else:
    print(f"all {n_cases} fake-executor cases correct")

# The same thing once with the real executor (8 workers, 39 jobs).
real_want = [job(i) for i in range(39)]
real_got = parallel([delayed(job)(i) for i in range(39)], n_jobs=8)
if real_got != real_want:
    print(f"real joblib, 8 workers, 39 jobs: got {len(real_got)} results, "
          f"last is {real_got[-1] if real_got else None}, expected last {real_want[-1]}")
    failures.append("real")
else:
    print("real joblib, 8 workers, 39 jobs: correct")

if failures:
    print("\nFAIL: parallel() does not return every job's result at its own position")
    sys.exit(1)
print("\nOK: parallel() returned every job's result at its own position")
