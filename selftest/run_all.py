"""Self-tests of the simulator itself (not property verdicts).

  ./check selftest                      -> conformance + determinism (small), used by setup_cmd
  python selftest/run_all.py determinism <PROP> <nseeds>
"""
from __future__ import annotations

import json
import os
import shutil
import subprocess
import sys
import tempfile

VERIF = os.path.dirname(os.path.dirname(os.path.abspath(__file__)))
PY = os.environ.get("VERIF_PYTHON", "/venv/bin/python")


def _run_shards(prop, tier, nshards, nseeds, hashbase, run_dir, tag):
    procs = []
    for s in range(nshards):
        out = os.path.join(run_dir, f"{tag}-{s}.jsonl")
        env = dict(os.environ)
        env["PYTHONHASHSEED"] = str(hashbase + s)
        env["VERIF_SCRATCH"] = run_dir
        env["VERIF_SEEDS"] = str(nseeds)
        env["VERIF_SOFT_S"] = "100000"
        env["PYTHONDONTWRITEBYTECODE"] = "1"
        p = subprocess.Popen([PY, os.path.join(VERIF, "worker.py"), "run", prop, tier, str(s),
                              str(nshards), "0", out], env=env, cwd=run_dir,
                             stdout=subprocess.PIPE, stderr=subprocess.STDOUT, text=True)
        procs.append((p, out))
    res = {}
    for p, out in procs:
        so, _ = p.communicate()
        if p.returncode != 0:
            raise RuntimeError(f"worker failed rc={p.returncode}\n{so[-2000:]}")
        with open(out) as f:
            for line in f:
                d = json.loads(line)
                if "harness_error" in d:
                    raise RuntimeError(d["harness_error"])
                if "seed" in d and d.get("role", 0) == 0:
                    res[d["seed"]] = d
    return res


def determinism(prop: str, nseeds: int, shards_a: int = 4, shards_b: int = 3) -> int:
    """Every seed: same event log + verdict + counters under different PYTHONHASHSEEDs,
    different shard counts (different in-process histories) and fresh interpreters."""
    os.makedirs(os.path.join(VERIF, ".scratch"), exist_ok=True)
    run_dir = tempfile.mkdtemp(prefix="selftest-", dir=os.path.join(VERIF, ".scratch"))
    try:
        a = _run_shards(prop, "quick", shards_a, nseeds, 1000, run_dir, "a")
        b = _run_shards(prop, "quick", shards_b, nseeds, 7000, run_dir, "b")
        bad = 0
        for seed in sorted(a):
            x, y = a[seed], b.get(seed)
            if y is None:
                print(f"  seed {seed}: missing in run b")
                bad += 1
                continue
            for k in ("events_sha", "keys", "stats", "interleavings"):
                if x.get(k) != y.get(k):
                    print(f"  seed {seed}: {k} differs:\n    {str(x.get(k))[:300]}\n    {str(y.get(k))[:300]}")
                    bad += 1
                    break
            if [v.get("class") for v in x.get("violations", [])] != \
                    [v.get("class") for v in y.get("violations", [])]:
                print(f"  seed {seed}: verdict differs")
                bad += 1
        print(f"[selftest] determinism {prop}: {len(a)} seeds x 2 runs "
              f"({shards_a} vs {shards_b} shards, different hash seeds): {bad} divergent")
        return 1 if bad else 0
    finally:
        shutil.rmtree(run_dir, ignore_errors=True)


def conformance() -> int:
    p = subprocess.run([PY, os.path.join(VERIF, "selftest", "conformance.py")],
                       stdout=subprocess.PIPE, stderr=subprocess.STDOUT, text=True)
    print(p.stdout[-3000:])
    return p.returncode


def main(argv=None) -> int:
    argv = sys.argv[1:] if argv is None else argv
    if argv and argv[0] == "determinism":
        return determinism(argv[1], int(argv[2]))
    rc = conformance()
    sizes = {"C32": 400, "C15": 120, "C27": 40}
    for prop, n in sizes.items():
        if os.path.exists(os.path.join(VERIF, "checks", f"{prop.lower()}.py")):
            rc |= determinism(prop, n)
    return 2 if rc else 0


if __name__ == "__main__":
    sys.exit(main())
