#!/bin/sh
# usage: selftest/try_patch.sh <patch.diff> <PROP> [tier]
# Applies a seeded breakage to /repo's working tree, runs the property's check against it and
# undoes it straight afterwards (also on failure / interrupt).  /repo must be clean before.
set -u
PATCH="$(readlink -f "$1")"; PROP="$2"; TIER="${3:-quick}"
DIR="$(cd "$(dirname "$0")/.." && pwd)"
if [ -n "$(git -C /repo status --porcelain --untracked-files=no)" ]; then
  echo "try_patch: /repo has uncommitted changes to tracked files; refusing" >&2; exit 2
fi
cleanup() { git -C /repo checkout -- . ; }
trap cleanup EXIT INT TERM
git -C /repo apply "$PATCH" || { echo "try_patch: patch does not apply" >&2; exit 2; }
cd "$DIR" && ./check "$PROP" --tier "$TIER"
rc=$?
echo "try_patch: check exit code $rc"
exit $rc
