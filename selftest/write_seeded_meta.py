"""Collect the records of the seeded-breakage confirmations into seeded/<id>/meta.json.

Inputs (produced by selftest/confirm_mutant.sh and selftest/try_patch.sh runs):
  <confirm_dir>/<id>/confirm.txt, tests_mutant.xml     -- my own confirmation in a scratch worktree
  <official_dir>/<id>.log, <id>.replay.json            -- ./check run with the patch applied to /repo
"""
from __future__ import annotations

import json
import os
import re
import sys
import xml.etree.ElementTree as ET

VERIF = os.path.dirname(os.path.dirname(os.path.abspath(__file__)))

NEEDS = {
    "C32-a": "two cooperating sites: a module-level kwargs dict shared between calls keeps return_as=generator_unordered "
             "from any earlier pooled list/unordered/pbar-dict call in the same process; a new pbar-less dict fast path "
             "then zips keys onto completion-ordered values. Needs an earlier call in the process, then a dict call "
             "without pbar, >=2 entries, n_jobs>1 and an out-of-order completion.",
    "C32-b": "fault at a particular point: a worker process dies (loky TerminatedWorkerError/BrokenProcessPool) while the "
             "set of completed jobs is not a prefix of the job list; the 'recovery' re-runs jobs[n_done:] only.",
    "C27-a": "multi-step history: >=3 cost calls where a kind is requested, then not requested (another flag still on), "
             "then requested again, on a component with a scale factor or n_parallel_instances != 1.",
    "C27-b": "history with a crossing: _spec_eval_expressions on the costed spec between two cost calls, on a component "
             "that has a component_class (model-backed) and a scale factor or n_parallel_instances != 1.",
    "C15-a": "unusual selection: a joined table with >=2 rows whose pmappings for one Einsum come from >=2 different "
             "PmappingGroups (wrong rows' details attached silently).",
    "C15-b": "unusual input: a zero-row PmappingGroup directly after a non-empty group that a joined row uses.",
    "C14-a": "RESOURCE_USAGE in the metric set, a dirty round that really prunes, and a resource/energy trade-off in the front.",
    "C14-b": "one worker (in-process, shared objects) and a dirty round that really prunes; with N workers the jobs run on copies.",
    "C14-c": "RESOURCE_USAGE (the only path whose final round has both tolerances 0) and a dirty round that prunes.",
    "C20-a": "worker count: 1 worker vs N workers on a spec with ties between templates of different length.",
    "C20-b": "history across specs in one (worker) process: an earlier spec with a different spec.mapper.tiling_coarseness "
             "warms a memo cache whose key omits it.",
    "C20-c": "cache_dir shared between two specs that differ only in spec.variables (same arch/workload text).",
    # ---- second round (agents were told what the first round had produced, to get different mechanisms)
    "C15-c": "unusual input: compressed index stored as uint16 sized by the group's own row count; a later small group "
             "whose running start offset lies beyond 65535 wraps onto rows of an earlier group (silently wrong details).",
    "C27-c": "two cooperating sites + history: a per-component record of the Einsum the costs were calculated for; a "
             "repeat call with a different einsum_name (or after _for_einsum) treats the costs as not calculated and "
             "re-applies the scale factors.",
    "C14-d": "unusual input + configuration: memory names where an ignored (infinite) memory's name is a prefix of a "
             "tracked one's (DRAM / DRAMCache), metrics without RESOURCE_USAGE, pmappings made with "
             "can_combine_multiple_runs=True (so that the join stage's own memory skipping has DRAM to skip), and a "
             "buffer of one to two tensors with 3 Einsums so that capacity binds only at join level.",
    "C14-e": "the optimality filter sorts its comparison points per column (np.sort axis=0): needs >= 2 objectives that "
             "trade off and no RESOURCE_USAGE; single-objective runs are unaffected.",
    "C20-d": "worker count: dirty pruning done in place survives only when jobs run in-process (1 worker); with N "
             "workers they run on pickled copies. Objective values differ.",
    "C20-e": "completion order: detailed-evaluation results collected in arrival order; needs a front of >= 2 mappings, "
             "> 1 worker and out-of-order completion. Only the row order of the returned front changes.",
    # ---- third round (agents were told what rounds 1 and 2 had produced)
    "C32-c": "unusual input: 'run identical jobs once' keyed by (func, args, kwargs) through a dict; jobs whose "
             "arguments compare and hash equal although they are different values (1 / True / 1.0, 0.0 / -0.0) get the "
             "first such job's result; n identical impure jobs are executed once. Independent of worker count and "
             "completion order.",
    "C27-d": "multi-step history: energy and throughput are costed in *different* calls (one call with exactly one of "
             "them off), then a later call requests both on a component with a non-unit scale: the fused per-action "
             "block is guarded by need_energy OR need_throughput but re-applies whatever was requested.",
    "C14-f": "unusual input + configuration: a memory whose own bits_per_value is wider than the workload's, sized "
             "between 'all tensors fit at the workload's width' and 'all tensors fit at the memory's width', metrics "
             "without RESOURCE_USAGE and the default make stage (can_combine_multiple_runs=False): the memory is judged "
             "never to overflow, goes untracked, and the staged join returns an over-capacity mapping.",
    "C15-d": "history: decompress_pmappings clears the caller's DecompressData; the first decompression after a "
             "compression is exact, a second selection decompressed from the same compression raises StopIteration.",
    "C20-f": "history + aliasing: an in-process memo in front of the cache_dir lookup (complete key) hands out the same "
             "mutable MultiEinsumPmappings each time; needs cache_dir, two equal calls in one process and the caller "
             "editing the object it was handed (drop_einsums) in between; a fresh process on the same cache_dir is correct.",
}


def main(confirm_dir, official_dir):
    baseline = json.load(open("/root/.vp/BASELINE.json"))
    stable = set(baseline["stable_pass"])
    rows = []
    only = set(sys.argv[3:])
    for mid in sorted(NEEDS):
        d = os.path.join(VERIF, "seeded", mid)
        if not os.path.isdir(d) or (only and mid not in only):
            continue
        prop = mid.split("-")[0]
        meta = {"id": mid, "breaks_property": prop, "needs_to_manifest": NEEDS[mid],
                "written_by": "fresh sub-agent given only the property text and its own scratch worktree",
                "files": {"patch": "patch.diff", "demonstration": "demo.py", "agent_notes": "agent_notes.md"}}
        cf = os.path.join(confirm_dir, mid, "confirm.txt")
        if os.path.exists(cf):
            txt = open(cf).read()
            kv = dict(re.findall(r"(\w+)=(\S+)", txt))
            conf = {"worktree": "scratch git worktree of /repo HEAD under /tmp (removed afterwards)",
                    "demo_exit_clean_tree": int(kv.get("demo_clean_exit", -1)),
                    "demo_exit_with_patch": int(kv.get("demo_mutant_exit", -1)),
                    "pytest_summary_with_patch": txt.strip().splitlines()[-1]}
            xf = os.path.join(confirm_dir, mid, "tests_mutant.xml")
            if os.path.exists(xf):
                res = {}
                for tc in ET.parse(xf).iter("testcase"):
                    name = f"{tc.get('classname')}::{tc.get('name')}"
                    res[name] = "fail" if any(c.tag in ("failure", "error") for c in tc) else "pass"
                ran = [s for s in stable if s in res]
                conf["existing_tests_run"] = len(res)
                conf["baseline_stable_tests_among_them"] = len(ran)
                conf["baseline_stable_tests_failing_with_patch"] = [s for s in ran if res[s] != "pass"]
            meta["confirmed_by_me"] = conf
        lf = os.path.join(official_dir, mid + ".log")
        if os.path.exists(lf):
            log = [l for l in open(lf).read().splitlines()
                   if not l.startswith(("[Memory]", "_make_pmappings", "____"))]
            vio = [l for l in log if l.startswith("VIOLATION")]
            cls = [l.strip() for l in log if l.strip().startswith("class=")]
            head = next((l for l in log if l.startswith(f"[{prop}] tier=")), "")
            cmdf = os.path.join(official_dir, mid + ".cmd")
            meta["check_run_against_repo_with_patch"] = {
                "command": open(cmdf).read().strip() if os.path.exists(cmdf) else
                           f"selftest/try_patch.sh seeded/{mid}/patch.diff {prop} quick   (git -C /repo apply; "
                           f"./check {prop} --tier quick; git -C /repo checkout -- .)",
                "summary_line": head,
                "caught": bool(vio),
                "violation_lines": len(vio),
                "first_reports": [c[:400] for c in cls[:3]],
            }
            rows.append((mid, prop, bool(vio), cls[0][:160] if cls else ""))
        with open(os.path.join(d, "meta.json"), "w") as f:
            json.dump(meta, f, indent=1)
            f.write("\n")
    for r in rows:
        print("| %s | %s | %s | %s |" % (r[0], r[1], "caught" if r[2] else "MISSED", r[3].replace("|", "/")))


if __name__ == "__main__":
    main(sys.argv[1], sys.argv[2])
