"""Process-global caches of accelforge: discovery by introspection, clear = "fresh worker"."""
from __future__ import annotations

import sys
import types

_found = None


def _discover():
    lru, dicts = [], []
    seen = set()
    for name, mod in list(sys.modules.items()):
        if mod is None or not (name == "accelforge" or name.startswith("accelforge.")):
            continue
        for an, obj in list(vars(mod).items()):
            _consider(obj, an, lru, dicts, seen)
            if isinstance(obj, type) and getattr(obj, "__module__", "").startswith("accelforge"):
                for cn, cobj in list(vars(obj).items()):
                    if isinstance(cobj, (staticmethod, classmethod)):
                        cobj = cobj.__func__
                    _consider(cobj, f"{an}.{cn}", lru, dicts, seen)
    return lru, dicts


def _consider(obj, an, lru, dicts, seen):
    if id(obj) in seen:
        return
    if callable(obj) and hasattr(obj, "cache_clear") and hasattr(obj, "cache_info"):
        seen.add(id(obj))
        lru.append((an, obj))
        return
    if isinstance(obj, dict) and (an.endswith("_cache") or an.endswith("_CACHE")):
        seen.add(id(obj))
        dicts.append((an, obj))
        return
    if isinstance(obj, types.FunctionType) and obj.__closure__ and hasattr(obj, "__wrapped__"):
        # dict_cached(func): closure holds the cache dict
        for name, cell in zip(obj.__code__.co_freevars, obj.__closure__):
            if name == "cache":
                try:
                    c = cell.cell_contents
                except ValueError:
                    continue
                if isinstance(c, dict) and id(c) not in seen:
                    seen.add(id(c))
                    dicts.append((an + ".<closure cache>", c))


def all_caches(refresh=False):
    global _found
    if _found is None or refresh:
        _found = _discover()
    return _found


def clear_all() -> int:
    """Clear every discovered cache; returns how many entries were dropped."""
    lru, dicts = all_caches()
    dropped = 0
    for _, f in lru:
        try:
            dropped += f.cache_info().currsize
        except Exception:
            pass
        f.cache_clear()
    for _, d in dicts:
        dropped += len(d)
        d.clear()
    return dropped


def occupancy() -> int:
    lru, dicts = all_caches()
    n = 0
    for _, f in lru:
        try:
            n += f.cache_info().currsize
        except Exception:
            pass
    for _, d in dicts:
        n += len(d)
    return n


def inventory():
    lru, dicts = all_caches()
    return [a for a, _ in lru], [a for a, _ in dicts]
