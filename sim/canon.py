"""Canonical, identity-free views of mapper results."""
from __future__ import annotations

import hashlib
import json
import math
import numbers

SKIP_FIELDS = {"component_object", "text", "title"}


def canon(obj, depth=0):
    """Structure of a mapping (or any pydantic / container value) with uuids and object
    identities stripped."""
    if depth > 60:
        return "<deep>"
    if obj is None or isinstance(obj, (bool, str)):
        return obj
    if isinstance(obj, numbers.Integral):
        return int(obj)
    if isinstance(obj, numbers.Real):
        f = float(obj)
        if math.isnan(f):
            return "nan"
        if math.isinf(f):
            return "inf" if f > 0 else "-inf"
        return float(f"{f:.9g}")
    fields = getattr(type(obj), "model_fields", None)
    if fields is not None:
        out = {"__class__": type(obj).__name__}
        for k in sorted(fields):
            if k in SKIP_FIELDS:
                continue
            try:
                v = getattr(obj, k)
            except Exception:
                continue
            out[k] = canon(v, depth + 1)
        extra = getattr(obj, "__pydantic_extra__", None)
        if extra:
            for k in sorted(extra):
                out[k] = canon(extra[k], depth + 1)
        return out
    if isinstance(obj, dict):
        return {"__dict__": sorted(([json.dumps(canon(k, depth + 1), sort_keys=True, default=str),
                                      canon(v, depth + 1)] for k, v in obj.items()),
                                    key=lambda kv: kv[0])}
    if isinstance(obj, (list, tuple)):
        return [canon(x, depth + 1) for x in obj]
    if isinstance(obj, (set, frozenset)):
        return {"__set__": sorted((json.dumps(canon(x, depth + 1), sort_keys=True, default=str)
                                   for x in obj))}
    try:
        import sympy
        if isinstance(obj, sympy.Basic):
            return {"__sympy__": sympy.srepr(obj)}
    except Exception:
        pass
    if hasattr(obj, "__iter__"):
        try:
            return [canon(x, depth + 1) for x in obj]
        except Exception:
            pass
    return {"__type__": type(obj).__name__, "str": str(obj)[:200] if not _has_addr(str(obj)) else ""}


def _has_addr(s: str) -> bool:
    return " at 0x" in s


def sha(obj) -> str:
    return hashlib.sha1(json.dumps(obj, sort_keys=True, default=str).encode()).hexdigest()


def objective_columns(columns, metric_names, with_reservations=None):
    """Columns of the result table that carry the requested objectives."""
    cols = []
    m = set(metric_names)
    if "ENERGY" in m:
        cols.append("Total<SEP>energy")
    if "LATENCY" in m:
        cols.append("Total<SEP>latency")
    if "ENERGY_DELAY_PRODUCT" in m:
        cols.append("Total<SEP>energy_delay_product")
    if "DYNAMIC_ENERGY" in m:
        cols.append("Total<SEP>dynamic_energy")
    if "LEAK_ENERGY" in m:
        cols.append("Total<SEP>leak_energy")
    if "RESOURCE_USAGE" in m:
        cols += sorted(c for c in columns if c.startswith("reservation<SEP>"))
    return [c for c in cols if c in columns]


def _val(v):
    try:
        f = float(v)
    except (TypeError, ValueError):
        return str(v)
    if math.isnan(f):
        return "nan"
    return f


def front_of(mappings, metric_names, with_structure=True):
    """List of rows: {"obj": [floats], "totals": {...}, "mapping": sha, "per_einsum": sha}
    sorted canonically."""
    data = mappings.data
    cols = list(data.columns)
    ocols = objective_columns(cols, metric_names)
    rows = []
    for i in range(len(data)):
        row = data.iloc[i]
        obj = [_val(row[c]) for c in ocols]
        totals = {c: _val(row[c]) for c in cols
                  if c.startswith("Total<SEP>") and c != "Total<SEP>mapping"}
        ent = {"obj": obj, "totals": totals}
        if with_structure:
            mp = row["Total<SEP>mapping"]
            try:
                M = mp() if callable(mp) else mp
                ent["mapping"] = sha(canon(M))
            except Exception as e:  # rendering problems are not this property's concern
                ent["mapping"] = f"<error {type(e).__name__}>"
            num = {c: _val(row[c]) for c in cols
                   if not c.endswith("<SEP>mapping") and not c.startswith("Total<SEP>")}
            ent["detail"] = sha(num)
        rows.append(ent)
    order = [(json.dumps(e["obj"]), e.get("mapping", "")) for e in rows]  # as returned
    rows.sort(key=lambda e: (json.dumps(e["obj"]), e.get("mapping", ""), e.get("detail", "")))
    return {"objective_columns": ocols, "rows": rows, "order": order}


def _close(a, b, rel=1e-6):
    if isinstance(a, str) or isinstance(b, str):
        return a == b
    if math.isinf(a) or math.isinf(b):
        return a == b
    return math.isclose(a, b, rel_tol=rel, abs_tol=1e-12)


def compare_fronts(ref, got):
    """Returns (clause, detail) or None.  Clauses, in order of severity:
    objective       -- the multiset of objective vectors differs
    representative  -- same objective vectors, a different mapping structure among ties
    """
    if ref["objective_columns"] != got["objective_columns"]:
        return "objective", f"objective columns {got['objective_columns']} != {ref['objective_columns']}"
    a, b = ref["rows"], got["rows"]
    if len(a) != len(b):
        return "objective", (f"front has {len(b)} rows, reference has {len(a)}; "
                             f"ref objs {[r['obj'] for r in a][:6]} got {[r['obj'] for r in b][:6]}")
    # rows are sorted by objective text; compare as sorted float vectors
    sa = sorted(a, key=lambda e: [x if not isinstance(x, str) else -1.0 for x in e["obj"]])
    sb = sorted(b, key=lambda e: [x if not isinstance(x, str) else -1.0 for x in e["obj"]])
    for i, (x, y) in enumerate(zip(sa, sb)):
        if len(x["obj"]) != len(y["obj"]) or not all(_close(p, q) for p, q in zip(x["obj"], y["obj"])):
            return "objective", f"row {i}: objective vector {y['obj']} != reference {x['obj']}"
    if "mapping" in (a[0] if a else {}):
        ma = sorted((json.dumps(e["obj"]), e["mapping"]) for e in a)
        mb = sorted((json.dumps(e["obj"]), e["mapping"]) for e in b)
        if [m[1] for m in ma] != [m[1] for m in mb]:
            k = next(i for i, (p, q) in enumerate(zip(ma, mb)) if p[1] != q[1])
            # totals of the differing row, to show whether the tie is exact in every total
            ta = next(e["totals"] for e in a if e["mapping"] == ma[k][1])
            tb = next(e["totals"] for e in b if e["mapping"] == mb[k][1])
            same_totals = all(_close(ta[c], tb.get(c, float("nan"))) if not isinstance(ta[c], str)
                              else ta[c] == tb.get(c) for c in ta)
            return "representative", (f"objective vectors equal, but row with objective {ma[k][0]} maps to "
                                      f"structure {mb[k][1][:10]} instead of {ma[k][1][:10]} "
                                      f"(all reported totals equal: {same_totals}; ref totals {ta}; got {tb})")
    if ref.get("order") is not None and got.get("order") is not None and ref["order"] != got["order"]:
        k = next(i for i, (p, q) in enumerate(zip(ref["order"], got["order"])) if p != q)
        return "row_order", (f"same rows, but returned in a different order: position {k} holds the row with "
                             f"objective {got['order'][k][0]} instead of {ref['order'][k][0]} "
                             f"(mappings[{k}] is a different mapping)")
    return None
