"""Virtual wall clock and deterministic uuid stream.

`time.time` is patched on the time module itself (accelforge has a function-local
`import time`), so every reader sees the virtual clock: simulated seconds (advanced by
the executor) plus tape-chosen jumps -- forward by hours, backwards, or frozen.
The harness' own budgets use time.perf_counter / time.monotonic, which stay real.
"""
from __future__ import annotations

import random
import sys
import time as _time
import uuid as _uuid

_real_time = _time.time
_real_uuid4 = _uuid.uuid4


class VirtualClock:
    JUMPS = (0.0, 0.0, 0.0, 0.0, 0.0, 0.0, 3600.0 * 5, -3600.0, 86400.0 * 400, -1e6, 1e-3)

    def __init__(self, tape, base: float = 1_700_000_000.0, jumpy: bool = True):
        self.tape = tape
        self.base = base
        self.sim_now = 0.0
        self.offset = 0.0
        self.frozen = 0
        self.jumpy = jumpy
        self.reads = 0
        self.jumps = {"forward": 0, "backward": 0, "freeze": 0}
        self._last = base

    def advance_to(self, t: float):
        self.sim_now = max(self.sim_now, t)

    def time(self) -> float:
        self.reads += 1
        if self.jumpy:
            # one draw per read; 0 (the default) means "nothing unusual"
            k = self.tape.choose(16, "clock")
            if k >= 12:
                j = self.JUMPS[6 + (k - 12)] if k < 16 else 0.0
                self.offset += j
                self.jumps["forward" if j > 0 else "backward"] += 1
            elif k == 11:
                self.frozen = 3
                self.jumps["freeze"] += 1
        if self.frozen > 0:
            self.frozen -= 1
            return self._last
        self.sim_now += 1e-4  # every read costs simulated time; keeps time moving by default
        self._last = self.base + self.sim_now + self.offset
        return self._last


class UuidStream:
    def __init__(self, seed: int):
        self.rng = random.Random(seed)
        self.n = 0

    def uuid4(self):
        self.n += 1
        return _uuid.UUID(int=self.rng.getrandbits(128), version=4)


class patched:
    """Context manager installing the virtual clock and uuid stream."""

    UUID4_NAMES = ("accelforge.mapper.FFM._make_pmappings.pmapper_job", "accelforge.model.main")

    def __init__(self, clock: VirtualClock | None, uuids: UuidStream | None):
        self.clock = clock
        self.uuids = uuids
        self._saved = []

    def __enter__(self):
        if self.clock is not None:
            self._saved.append((_time, "time", _time.time))
            _time.time = self.clock.time
        if self.uuids is not None:
            self._saved.append((_uuid, "uuid4", _uuid.uuid4))
            _uuid.uuid4 = self.uuids.uuid4
            for mn in self.UUID4_NAMES:
                mod = sys.modules.get(mn)
                if mod is not None and hasattr(mod, "uuid4"):
                    self._saved.append((mod, "uuid4", mod.uuid4))
                    mod.uuid4 = self.uuids.uuid4
        return self

    def __exit__(self, *exc):
        for mod, name, val in reversed(self._saved):
            setattr(mod, name, val)
        return False
