"""Process-level setup shared by every check worker: scratch dirs, env, imports."""
from __future__ import annotations

import atexit
import os
import shutil
import sys
import tempfile

VERIF = os.path.dirname(os.path.dirname(os.path.abspath(__file__)))
REPO = os.environ.get("VERIF_REPO", "/repo")
GUARD = "ACCELFORGE_VERIF"

_scratch = None


def scratch_root() -> str:
    """Per-process scratch directory under /verif/.scratch (git-ignored), removed at
    exit.  It is CWD (mapping.svg lands here) and TMPDIR (_memmap_read's undeleted
    temp files land here)."""
    global _scratch
    if _scratch is None:
        base = os.environ.get("VERIF_SCRATCH") or os.path.join(VERIF, ".scratch")
        os.makedirs(base, exist_ok=True)
        _scratch = tempfile.mkdtemp(prefix=f"w{os.getpid()}-", dir=base)
        atexit.register(shutil.rmtree, _scratch, True)
    return _scratch


def purge_scratch(keep: tuple[str, ...] = ()) -> None:
    root = scratch_root()
    for name in os.listdir(root):
        if name in keep:
            continue
        p = os.path.join(root, name)
        try:
            if os.path.isdir(p) and not os.path.islink(p):
                shutil.rmtree(p, ignore_errors=True)
            else:
                os.unlink(p)
        except OSError:
            pass


def setup_process() -> str:
    """Call before importing accelforge."""
    os.environ[GUARD] = "1"
    os.environ.setdefault("NUMBA_CACHE_DIR", os.path.join(VERIF, ".cache", "numba"))
    os.makedirs(os.environ["NUMBA_CACHE_DIR"], exist_ok=True)
    root = scratch_root()
    os.environ["TMPDIR"] = root
    tempfile.tempdir = root
    os.chdir(root)
    if VERIF not in sys.path:
        sys.path.insert(0, VERIF)
    if os.path.realpath(REPO) != "/repo":
        # development aid only (trying a patch in a scratch worktree without touching /repo):
        # registered commands never set VERIF_REPO and always run /repo's working tree
        sys.path.insert(0, REPO)
        os.environ["PYTHONPATH"] = REPO + os.pathsep + os.environ.get("PYTHONPATH", "")
    # keep BLAS / numba single threaded: the only parallelism is the driver's
    for v in ("OMP_NUM_THREADS", "MKL_NUM_THREADS", "OPENBLAS_NUM_THREADS",
              "NUMBA_NUM_THREADS"):
        os.environ.setdefault(v, "1")
    return root
