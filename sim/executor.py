"""SimParallel: deterministic discrete-event stand-in for joblib.Parallel / loky.

Everything that real loky decides by machine timing is decided here by the
choice tape: per-job durations (hence completion order), tie-breaks, lazy or
eager consumption of generator results, which pending job a free worker picks
(FIFO by default), cache epochs at job start (via a hook), injected job
failures (via a hook).  The job function really runs, in this process, on a
cloudpickle round-trip of (func, args, kwargs); its result is round-tripped
back -- copy semantics of a process boundary.
"""
from __future__ import annotations

import heapq
import os
import sys

import cloudpickle

_HERE = os.path.abspath(__file__)

DURATIONS = (0, 1, 2, 3, 5, 8, 13, 100, 1000)  # index 0 = default (tie, FIFO)


class InjectedFault(Exception):
    """Base of every exception the simulator injects."""


class InjectedWorkerDeath(InjectedFault, RuntimeError):
    pass


class InjectedMemoryError(InjectedFault, MemoryError):
    pass


FAULT_KINDS = ("exception", "worker_death", "memory")


def make_fault(kind: str, msg: str) -> BaseException:
    """What real deployments meet: an ordinary exception in the job, the worker process dying
    (loky raises TerminatedWorkerError, a BrokenProcessPool), or MemoryError."""
    if kind == "worker_death":
        from joblib.externals.loky.process_executor import TerminatedWorkerError
        e = TerminatedWorkerError("injected: " + msg)
    elif kind == "memory":
        e = InjectedMemoryError("injected: " + msg)
    else:
        e = InjectedWorkerDeath("injected: " + msg)
    e.verif_injected = True
    return e


def is_injected(e: BaseException) -> bool:
    return isinstance(e, InjectedFault) or getattr(e, "verif_injected", False) \
        or "injected: " in str(e)


class CallRecord:
    __slots__ = ("index", "site", "n_jobs", "W", "mode", "delivery", "exec_order",
                 "lazy", "failed", "fingerprints")

    def __init__(self, index, site, n_jobs, W, mode):
        self.index = index
        self.site = site
        self.n_jobs = n_jobs
        self.W = W
        self.mode = mode
        self.delivery = []
        self.exec_order = []
        self.lazy = False
        self.failed = None
        self.fingerprints = None

    def as_tuple(self):
        return (self.index, self.site, self.n_jobs, self.W, self.mode,
                tuple(self.delivery), tuple(self.exec_order), self.lazy, self.failed)


class Sim:
    """Simulation context.  One per run; installed globally through `install`."""

    def __init__(self, tape, W: int = 4, *, pickle_jobs: bool = True,
                 exec_shuffle: bool = False, order_mode: str = "durations",
                 duration_choices=DURATIONS, clock=None,
                 on_job_start=None, job_fault=None, fingerprint=None,
                 repo_root: str | None = None):
        self.tape = tape
        self.W = W
        self.pickle_jobs = pickle_jobs
        self.exec_shuffle = exec_shuffle
        self.order_mode = order_mode  # durations | reverse | rotate | fifo
        self.duration_choices = duration_choices
        self.clock = clock
        self.on_job_start = on_job_start  # f(sim, callrec, i)
        self.job_fault = job_fault  # f(sim, callrec, i) -> Exception | None
        self.fingerprint = fingerprint  # f(job_tuple) -> str | None
        self.repo_root = repo_root or os.environ.get("VERIF_REPO", "/repo")
        self.calls: list[CallRecord] = []
        self.now = 0.0  # simulated seconds
        self._depth = 0
        self.stats = {
            "parallel_calls": 0, "jobs": 0, "unordered_permuted": 0,
            "ordered_calls_completion_permuted": 0,
            "straggler_overtaken": 0, "ties_broken": 0, "lazy_calls": 0,
            "exec_order_permuted": 0, "faults_job_exception": 0,
            "pickled_bytes": 0,
        }

    # ---------------------------------------------------------------- helpers
    def _site(self) -> str:
        f = sys._getframe(2)
        while f is not None:
            fn = f.f_code.co_filename
            if fn != _HERE and not fn.endswith("accelforge/util/parallel.py") \
                    and "/joblib/" not in fn:
                rel = os.path.relpath(fn, self.repo_root) if fn.startswith(self.repo_root) \
                    else os.path.basename(fn)
                return f"{rel}:{f.f_code.co_name}"
            f = f.f_back
        return "?"

    def delivery_signature(self):
        return tuple((c.site, c.n_jobs, tuple(c.delivery)) for c in self.calls
                     if c.n_jobs > 1)


_CURRENT: Sim | None = None


def current() -> Sim | None:
    return _CURRENT


class SimParallel:
    def __init__(self, n_jobs=None, return_as="list", **kwargs):
        self.n_jobs = n_jobs
        self.return_as = return_as
        self.kwargs = kwargs
        if return_as not in ("list", "generator", "generator_unordered"):
            raise ValueError(f"return_as={return_as!r}")

    def __call__(self, iterable):
        sim = _CURRENT
        if sim is None:
            raise RuntimeError("SimParallel used without an installed Sim")
        jobs = list(iterable)
        W = self.n_jobs
        if W is None:
            W = 1
        elif W < 0:
            W = max(1, sim.W + 1 + W)
        elif W == 0:
            raise ValueError("n_jobs == 0 in Parallel has no meaning")
        if sim._depth > 0:
            # Nested use inside a simulated worker: joblib downgrades nested
            # parallelism; run in submission order, in-process, no new seam.
            sim.stats["nested_calls"] = sim.stats.get("nested_calls", 0) + 1
            out = [f(*a, **k) for f, a, k in jobs]
            return out if self.return_as == "list" else iter(out)
        rec = CallRecord(len(sim.calls), sim._site(), len(jobs), W, self.return_as)
        sim.calls.append(rec)
        sim.stats["parallel_calls"] += 1
        sim.stats["jobs"] += len(jobs)
        if sim.fingerprint is not None:
            rec.fingerprints = [sim.fingerprint(j) for j in jobs]
        sim.tape.log("call", rec.index, rec.site, rec.n_jobs, W, self.return_as)
        gen = _simulate(sim, rec, jobs, W, self.return_as)
        if self.return_as == "list":
            return list(gen)
        # generator modes: eager (default) or lazy consumption
        lazy = bool(sim.tape.choose(2, "lazy|" + rec.site)) if len(jobs) > 1 else False
        rec.lazy = lazy
        if lazy:
            sim.stats["lazy_calls"] += 1
            return gen
        return iter(list(gen))


def _run_job(sim: Sim, payload, pickled):
    if pickled:
        func, args, kwargs = cloudpickle.loads(payload)
    else:
        func, args, kwargs = payload
    sim._depth += 1
    try:
        try:
            res = func(*args, **kwargs)
        finally:
            sim._depth -= 1
        if pickled:
            b = cloudpickle.dumps(res)
            sim.stats["pickled_bytes"] += len(b)
            res = cloudpickle.loads(b)
        return True, res
    except BaseException as e:  # delivered to the consumer like joblib does
        if isinstance(e, (KeyboardInterrupt, SystemExit)):
            raise
        return False, e


def _simulate(sim: Sim, rec: CallRecord, jobs, W, mode):
    tape = sim.tape
    n = len(jobs)
    window = max(1, 2 * W)
    next_dispatch = 0
    queue = []  # dispatched, not started: (i, payload)
    running = []  # heap (finish, seq, i, ok, res, duration_index)
    inflight = 0
    free = W
    seq = 0
    buffered = {}
    next_ordered = 0
    n_completed = 0
    n_dur = len(sim.duration_choices)
    pickled = sim.pickle_jobs and W > 1  # joblib n_jobs=1 is sequential, in-process, shared

    def duration_index(i):
        om = sim.order_mode
        if om == "fifo" or n == 1:
            return None, 0.0
        if om == "reverse":
            return None, float((n - i) * 10)
        if om == "rotate":
            return None, (3600.0 if i == 0 else 0.0)
        k = tape.choose(n_dur, "dur|" + rec.site)
        return k, float(sim.duration_choices[k])

    while n_completed < n:
        # dispatch (arguments are pickled *now*)
        while next_dispatch < n and inflight < window:
            job = jobs[next_dispatch]
            if pickled:
                payload = cloudpickle.dumps(tuple(job))
                sim.stats["pickled_bytes"] += len(payload)
            else:
                payload = tuple(job)
            queue.append((next_dispatch, payload))
            tape.log("dispatch", rec.index, next_dispatch)
            next_dispatch += 1
            inflight += 1
        # start
        while free > 0 and queue:
            k = tape.choose(len(queue), "pick|" + rec.site) if sim.exec_shuffle else 0
            i, payload = queue.pop(k)
            if k:
                sim.stats["exec_order_permuted"] += 1
            free -= 1
            if sim.on_job_start is not None:
                sim.on_job_start(sim, rec, i)
            rec.exec_order.append(i)
            tape.log("start", rec.index, i, sim.now)
            ok, res = _run_job(sim, payload, pickled)
            if ok and sim.job_fault is not None:
                exc = sim.job_fault(sim, rec, i)
                if exc is not None:
                    ok, res = False, exc
                    sim.stats["faults_job_exception"] += 1
                    tape.log("fault", rec.index, i, type(exc).__name__)
            dk, d = duration_index(i)
            seq += 1
            heapq.heappush(running, (sim.now + d, seq, i, ok, res, dk))
        # complete one
        t = running[0][0]
        ties = []
        while running and running[0][0] == t:
            ties.append(heapq.heappop(running))
        k = tape.choose(len(ties), "tie|" + rec.site)
        if k:
            sim.stats["ties_broken"] += 1
        ev = ties.pop(k)
        for other in ties:
            heapq.heappush(running, other)
        _, _, i, ok, res, dk = ev
        sim.now = max(sim.now, t)
        if sim.clock is not None:
            sim.clock.advance_to(sim.now)
        free += 1
        inflight -= 1
        n_completed += 1
        tape.log("complete", rec.index, i, sim.now, ok)
        if not ok:
            rec.failed = i
            _finish(sim, rec)
            raise res
        if mode == "generator_unordered":
            rec.delivery.append(i)
            yield res
        else:
            buffered[i] = res
            rec.delivery.append(i)  # completion order, even if delivered in order
            while next_ordered in buffered:
                yield buffered.pop(next_ordered)
                next_ordered += 1
    _finish(sim, rec)


def _finish(sim: Sim, rec: CallRecord):
    d = rec.delivery
    permuted = any(d[j] > d[j + 1] for j in range(len(d) - 1))
    if permuted:
        if rec.mode == "generator_unordered":
            sim.stats["unordered_permuted"] += 1
        else:
            sim.stats["ordered_calls_completion_permuted"] += 1
        if d and d[-1] == 0 and len(d) > 2:
            sim.stats["straggler_overtaken"] += 1
    sim.tape.log("done", rec.index, tuple(d), rec.failed)


# -------------------------------------------------------------------- install
class install:
    """Context manager: route every joblib.Parallel use into the simulator."""

    def __init__(self, sim: Sim):
        self.sim = sim
        self._saved = []

    def __enter__(self):
        global _CURRENT
        import joblib
        import joblib.parallel
        import accelforge.util.parallel  # noqa: F401  (attribute is the function!)
        pmod = sys.modules["accelforge.util.parallel"]
        for mod, name in ((pmod, "Parallel"), (joblib, "Parallel"),
                          (joblib.parallel, "Parallel")):
            self._saved.append((mod, name, getattr(mod, name)))
            setattr(mod, name, SimParallel)
        self._prev = _CURRENT
        _CURRENT = self.sim
        return self.sim

    def __exit__(self, *exc):
        global _CURRENT
        for mod, name, val in reversed(self._saved):
            setattr(mod, name, val)
        _CURRENT = self._prev
        return False
