"""Shrink a failing (scenario, tape) pair while the same violation class persists."""
from __future__ import annotations

import time

_perf = time.perf_counter
_DONE_CLASSES: set = set()


def first_of_class(vclass: str) -> bool:
    """Per process: only the first violation of a class is minimised (the others are reported
    with their raw scenario and tape, which replay just as well); keeps a badly broken tree
    from spending the whole budget in the minimiser."""
    if vclass in _DONE_CLASSES:
        return False
    _DONE_CLASSES.add(vclass)
    return True


def minimize(scenario: dict, tape_values: list, run, vclass: str, simplify=None,
             max_runs: int = 200, max_s: float = 60.0, group_by_site: bool = False):
    """run(scenario, tape_values) -> (set_of_violation_classes, used_tape_values).

    Returns (scenario, tape_values, n_runs).  `tape_values` are [site, n, v] triples;
    a replayed tape answers 0 beyond its end, so truncation == zeroing a suffix.
    """
    t0 = _perf()
    runs = 0
    if not first_of_class(vclass):
        return scenario, [list(x) for x in tape_values], 0

    def still_fails(sc, tv):
        nonlocal runs
        if runs >= max_runs or _perf() - t0 > max_s:
            return False, tv
        runs += 1
        classes, used = run(sc, tv)
        return vclass in classes, used

    def strip(tv):
        tv = [list(x) for x in tv]
        while tv and not tv[-1][2]:
            tv.pop()
        return tv

    tv = strip(tape_values)

    # 1. scenario ladder first (usually removes most of the tape as well)
    if simplify is not None:
        progress = True
        while progress and runs < max_runs and _perf() - t0 <= max_s:
            progress = False
            for cand in simplify(scenario):
                ok, used = still_fails(cand, tv)
                if ok:
                    scenario, tv, progress = cand, strip(used), True
                    break

    # 2. zero whole tape (the null schedule) -- input-only violation?
    ok, used = still_fails(scenario, [])
    if ok:
        return scenario, [], runs

    def nz(tv):
        return [i for i, x in enumerate(tv) if x[2]]

    # 2b. zero all draws of one site (e.g. every duration draw of one parallel() call) at once
    if group_by_site:
        sites = {}
        for i in nz(tv):
            sites.setdefault(tv[i][0], []).append(i)
        for site in sorted(sites, key=lambda s: -len(sites[s])):
            if runs >= max_runs or _perf() - t0 > max_s:
                break
            cand = [list(x) for x in tv]
            hit = False
            for x in cand:
                if x[0] == site and x[2]:
                    x[2] = 0
                    hit = True
            if not hit:
                continue
            ok, used = still_fails(scenario, cand)
            if ok:
                tv = strip(used)

    # 3. ddmin over non-zero tape entries

    chunk = max(1, len(nz(tv)) // 2)
    while chunk >= 1 and runs < max_runs and _perf() - t0 <= max_s:
        idx = nz(tv)
        changed = False
        pos = 0
        while pos < len(idx):
            cand = [list(x) for x in tv]
            for i in idx[pos:pos + chunk]:
                cand[i][2] = 0
            ok, used = still_fails(scenario, cand)
            if ok:
                tv = strip(used)
                idx = nz(tv)
                changed = True
            else:
                pos += chunk
        if chunk == 1 and not changed:
            break
        chunk = max(1, chunk // 2) if chunk > 1 else (1 if changed else 0)
        if chunk == 0:
            break

    # 4. lower remaining non-zero values towards 1
    for i in nz(tv):
        if runs >= max_runs or _perf() - t0 > max_s:
            break
        if tv[i][2] > 1:
            cand = [list(x) for x in tv]
            cand[i][2] = 1
            ok, used = still_fails(scenario, cand)
            if ok:
                tv = strip(used)
    return scenario, tv, runs
