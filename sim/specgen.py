"""Seeded generator of small accelforge specs (DESIGN section 3)."""
from __future__ import annotations

import os
import random

SIZES = [2, 3, 4, 6, 8, 12]
METRIC_SETS = [["ENERGY"], ["LATENCY"], ["ENERGY", "LATENCY"], ["ENERGY_DELAY_PRODUCT"],
               ["ENERGY", "LATENCY", "RESOURCE_USAGE"], ["ENERGY", "RESOURCE_USAGE"]]


def gen_params(r: random.Random, *, max_einsums=3, small=True, want_multi=False) -> dict:
    kind = r.choice(["chain", "chain", "chain", "shared_input", "chain_copy"])
    n_e = r.choice([1, 2, 2, 2, 3][: 3 + max_einsums - 1]) if not want_multi else r.choice([2, 3, 3])
    n_e = min(n_e, max_einsums)
    if kind != "chain":
        n_e = max(2, n_e)
    sizes = SIZES[:4] if small else SIZES
    M = r.choice(sizes)
    N = [r.choice(sizes) for _ in range(n_e + 1)]
    if r.random() < 0.5:  # equal sizes -> many ties
        N = [N[0]] * (n_e + 1)
    bits = r.choice([8, 8, 16])
    ties = r.random() < 0.5
    if ties:
        main_e, glb_e, mac_e = r.choice([1, 8, 100]), r.choice([1, 2]), r.choice([0, 1])
        rf_e = r.choice([0, 1])
    else:
        main_e = round(r.uniform(20, 200), 3)
        glb_e = round(r.uniform(0.5, 4), 3)
        mac_e = round(r.uniform(0.1, 2), 3)
        rf_e = round(r.uniform(0.05, 0.5), 3)
    # working set (in bits) of one Einsum: used to place finite sizes near the interesting region
    ws = max((M * N[i] + N[i] * N[i + 1] + M * N[i + 1]) * bits for i in range(n_e))
    glb_size = r.choice(["inf", "inf", round(ws * r.choice([0.3, 0.5, 0.75, 0.9, 1.0, 1.1, 1.5, 2.5]))])
    p = {
        "kind": kind, "n_einsums": n_e, "M": M, "N": N, "bits": bits,
        "main_energy": main_e, "main_throughput": r.choice(["inf", "inf", 8]),
        "glb_energy": glb_e, "glb_size": glb_size, "glb_throughput": r.choice(["inf", 4, 16]),
        "rf": r.random() < 0.3, "rf_energy": rf_e,
        "rf_size": r.choice(["inf", bits * r.choice([1, 2, 4, 16])]),
        "fanout": r.choice([1, 1, 2, 4]), "fanout_at": r.choice(["mac", "glb"]),
        "mac_energy": mac_e, "mac_throughput": r.choice([1, 1, 2]),
        "metrics": r.choice(METRIC_SETS),
        "max_fused_loops": r.choice(["inf", "inf", 1, 0]),
        "glb_keep": r.choice(["~MainMemory", "~MainMemory", "All"]),
        "persistent_weights": False,
    }
    # some specs take their energies from the top-level `variables` section (expressions in the
    # architecture are evaluated against it), so that "the same arch text" can mean different costs
    # component names are inputs too: one naming scheme has names that are prefixes of each other
    p["names"] = r.choice([["MainMemory", "GlobalBuffer", "RegFile", "MAC"]] * 3 +
                          [["DRAM", "DRAMCache", "DRAMCacheL0", "PE"], ["Mem", "Mem2", "Mem2x", "Mem2xALU"]])
    p["persistent_weights"] = r.random() < 0.2   # weights stay resident across Einsums
    p["glb_bits"] = r.choice([None, None, None, 4, 16])  # per-memory bits_per_value override
    p["use_vars"] = r.random() < 0.35
    if r.random() < 0.2:
        p["mapper"] = {"tiling_coarseness": r.choice([2, 4])}
    return p


def workload_yaml(p) -> str:
    M, N, n = p["M"], p["N"], p["n_einsums"]
    L = ["workload:", "  iteration_space_shape:", f"    m: 0 <= m < {M}"]
    for i in range(n + 1):
        L.append(f"    n{i}: 0 <= n{i} < {N[i]}")
    L += [f"  bits_per_value: {{All: {p['bits']}}}", "  einsums:"]
    kind = p["kind"]
    pers = ", persistent: True" if p.get("persistent_weights") else ""
    for i in range(n):
        if kind == "shared_input" and i >= 1:
            # Einsum i reads the same input T0 as Einsum 0 with its own weights
            L += [f"  - name: Matmul{i}", "    tensor_accesses:",
                  "    - {name: T0, projection: [m, n0]}",
                  f"    - {{name: W{i}, projection: [n0, n{i + 1}]{pers}}}",
                  f"    - {{name: T{i + 1}, projection: [m, n{i + 1}], output: True}}"]
        elif kind == "chain_copy" and i == n - 1:
            L += [f"  - name: Matmul{i}", "    tensor_accesses:",
                  f"    - {{name: T{i}, projection: [m, n{i}]}}",
                  f"    - {{name: T{i + 1}, projection: [m, n{i}], output: True}}"]
        else:
            L += [f"  - name: Matmul{i}", "    tensor_accesses:",
                  f"    - {{name: T{i}, projection: [m, n{i}]}}",
                  f"    - {{name: W{i}, projection: [n{i}, n{i + 1}]{pers}}}",
                  f"    - {{name: T{i + 1}, projection: [m, n{i + 1}], output: True}}"]
    return "\n".join(L) + "\n"


def arch_yaml(p) -> str:
    p = dict(p)
    main, glb, rf, mac = p.get("names") or ["MainMemory", "GlobalBuffer", "RegFile", "MAC"]
    if p["glb_keep"] == "~MainMemory":
        p["glb_keep"] = "~" + main
    head = []
    if p.get("use_vars"):
        head = ["variables:", f"  MAIN_E: {p['main_energy']}", f"  GLB_E: {p['glb_energy']}"]
        p["main_energy"] = "MAIN_E"
        p["glb_energy"] = "GLB_E * 1"
    L = head + ["arch:", "  nodes:",
         "  - !Memory", f"    name: {main}", "    size: inf", "    leak_power: 0", "    area: 0",
         "    tensors: {keep: ~Intermediates, may_keep: All}", "    actions:",
         f"    - {{name: read, energy: {p['main_energy']}, throughput: {p['main_throughput']}}}",
         f"    - {{name: write, energy: {p['main_energy']}, throughput: {p['main_throughput']}}}",
         "  - !Memory", f"    name: {glb}", f"    size: {p['glb_size']}", "    leak_power: 0",
         "    area: 0"]
    if p["glb_keep"] == "none":
        L.append("    tensors: {may_keep: All}")
    else:
        L.append(f"    tensors: {{keep: {p['glb_keep']}, may_keep: All}}")
    if p.get("glb_bits"):
        L.append(f"    bits_per_value: {{All: {p['glb_bits']}}}")
    if p["fanout"] > 1 and p["fanout_at"] == "glb":
        L += ["    spatial:", f"    - {{name: X, fanout: {p['fanout']}}}"]
    L += ["    actions:",
          f"    - {{name: read, energy: {p['glb_energy']}, throughput: {p['glb_throughput']}}}",
          f"    - {{name: write, energy: {p['glb_energy']}, throughput: {p['glb_throughput']}}}"]
    if p["fanout"] > 1 and p["fanout_at"] == "mac":
        L += ["  - !Container", f"    name: {mac}Array", "    spatial:",
              f"    - {{name: X, fanout: {p['fanout']}}}"]
    if p["rf"]:
        L += ["  - !Memory", f"    name: {rf}", f"    size: {p['rf_size']}", "    leak_power: 0",
              "    area: 0", "    tensors: {may_keep: All}", "    actions:",
              f"    - {{name: read, energy: {p['rf_energy']}, throughput: inf}}",
              f"    - {{name: write, energy: {p['rf_energy']}, throughput: inf}}"]
    L += ["  - !Compute", f"    name: {mac}", "    leak_power: 0", "    area: 0", "    actions:",
          f"    - {{name: compute, energy: {p['mac_energy']}, throughput: {p['mac_throughput']}}}"]
    return "\n".join(L) + "\n"


def spec_yaml(p) -> str:
    return arch_yaml(p) + workload_yaml(p)


def build_spec(p, workdir: str):
    import accelforge as af
    from accelforge import Spec
    path = os.path.join(workdir, f"spec-{os.getpid()}.yaml")
    with open(path, "w") as f:
        f.write(spec_yaml(p))
    try:
        spec = Spec.from_yaml(path)
    finally:
        os.unlink(path)
    m = None
    for name in p["metrics"]:
        v = getattr(af.Metrics, name)
        m = v if m is None else (m | v)
    spec.mapper.metrics = m
    if p["max_fused_loops"] != "inf":
        spec.mapper.max_fused_loops = p["max_fused_loops"]
    for k, v in (p.get("mapper") or {}).items():
        setattr(spec.mapper, k, v)
    return spec
