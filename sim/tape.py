"""Choice tape: the single source of every simulator decision.

search mode : values drawn from random.Random(seed), recorded as (site, n, value)
replay mode : values returned from a recorded list; 0 beyond its end.

0 is by convention always the "default / FIFO / no fault" choice, so that
shrinking == turning entries into 0 and truncating.  Logging never draws from
the tape and never reads a clock.
"""
from __future__ import annotations

import hashlib
import random


class Tape:
    def __init__(self, seed: int | None = None, replay: list | None = None,
                 p_nonzero: float = 1.0):
        """p_nonzero < 1 makes a search-mode tape sparse: each draw is forced to
        0 with probability 1-p_nonzero (decided by the same PRNG)."""
        self.seed = seed
        self.mode = "replay" if replay is not None else "search"
        self._rng = random.Random(seed) if replay is None else None
        self._replay = list(replay) if replay is not None else None
        self._pos = 0
        self.p_nonzero = p_nonzero
        self.record: list[tuple[str, int, int]] = []
        self.events: list[tuple] = []  # event log (never influences choices)

    # ------------------------------------------------------------------ draws
    def choose(self, n: int, site: str) -> int:
        """int in [0, n). n <= 1 never consumes the tape."""
        if n <= 1:
            return 0
        if self.mode == "search":
            if self.p_nonzero < 1.0 and self._rng.random() >= self.p_nonzero:
                v = 0
            else:
                v = self._rng.randrange(n)
        else:
            if self._pos < len(self._replay):
                ent = self._replay[self._pos]
                v = ent[2] if isinstance(ent, (list, tuple)) else int(ent)
                v %= n
            else:
                v = 0
            self._pos += 1
        self.record.append((site, n, v))
        return v

    def coin(self, num: int, den: int, site: str) -> bool:
        """True with probability num/den; False is the default (0) choice."""
        if num <= 0:
            return False
        return self.choose(den, site) >= den - num

    def pick(self, seq, site: str):
        return seq[self.choose(len(seq), site)]

    def shuffle(self, n: int, site: str) -> list[int]:
        """A permutation of range(n); all-zero draws give the identity."""
        pool = list(range(n))
        out = []
        while pool:
            out.append(pool.pop(self.choose(len(pool), site)))
        return out

    # ------------------------------------------------------------------ log
    def log(self, *event) -> None:
        self.events.append(event)

    def event_digest(self) -> str:
        h = hashlib.sha1()
        for e in self.events:
            h.update(repr(e).encode())
            h.update(b"\n")
        return h.hexdigest()

    def values(self) -> list[list]:
        return [[s, n, v] for (s, n, v) in self.record]

    def nonzero_positions(self) -> list[int]:
        return [i for i, (_, _, v) in enumerate(self.record) if v]


def derive_seed(*parts) -> int:
    """Stable 63-bit integer from arbitrary parts (independent of PYTHONHASHSEED)."""
    h = hashlib.sha256(repr(parts).encode()).digest()
    return int.from_bytes(h[:8], "big") >> 1
