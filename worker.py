"""One shard of a check, in its own fresh interpreter (own PYTHONHASHSEED).

usage: worker.py run    <prop> <tier> <shard> <nshards> <base_seed> <out.jsonl>
       worker.py replay <prop> <replay.json> <out.jsonl>
Writes one JSON object per line; the driver aggregates.  Exit 0 = shard finished
(violations are data, not exit codes), 3 = harness error, faulthandler kill = hang.
"""
from __future__ import annotations

import faulthandler
import importlib
import json
import os
import sys
import time
import traceback

sys.path.insert(0, os.path.dirname(os.path.abspath(__file__)))
from sim import common  # noqa: E402

_perf = time.perf_counter  # captured before any clock patching


def _emit(f, obj):
    f.write(json.dumps(obj, sort_keys=True, default=str) + "\n")
    f.flush()


def main(argv):
    mode = argv[1]
    prop = argv[2]
    common.setup_process()
    faulthandler.enable()
    mod = importlib.import_module(f"checks.{prop.lower()}")
    if mode == "replay":
        path, out = argv[3], argv[4]
        with open(path) as fh:
            rp = json.load(fh)
        with open(out, "w") as f:
            try:
                ctx = {"tier": "replay", "shard": 0, "nshards": 1}
                faulthandler.dump_traceback_later(float(rp.get("per_seed_s", 600)), exit=True)
                mod.init(ctx)
                res = mod.replay(rp, ctx)
                faulthandler.cancel_dump_traceback_later()
                _emit(f, {"replay_result": res})
            except Exception:
                _emit(f, {"harness_error": traceback.format_exc()})
                return 3
        return 0

    tier, shard, nshards, base, out = argv[3], int(argv[4]), int(argv[5]), int(argv[6]), argv[7]
    cfg = dict(mod.TIERS[tier])
    for k in ("seeds", "soft_s"):
        ov = os.environ.get(f"VERIF_{k.upper()}")
        if ov:
            cfg[k] = type(cfg[k])(float(ov))
    n = int(cfg["seeds"])
    replicas = getattr(mod, "REPLICAS", 1)
    work = []
    for i in range(n):
        if i % nshards == shard:
            work.append((i, 0))
        if replicas == 2 and nshards > 1 and (i % nshards + nshards // 2) % nshards == shard:
            work.append((i, 1))
    ctx = {"tier": tier, "shard": shard, "nshards": nshards, "cfg": cfg,
           "hashseed": os.environ.get("PYTHONHASHSEED")}
    t0 = _perf()
    with open(out, "w") as f:
        try:
            faulthandler.dump_traceback_later(float(cfg.get("init_s", 600)), exit=True)
            mod.init(ctx)
            faulthandler.cancel_dump_traceback_later()
            _emit(f, {"init_s": _perf() - t0, "shard": shard})
            t0 = _perf()  # the soft budget covers exploration, not interpreter start-up / JIT
            done = 0
            if shard == 0 and hasattr(mod, "run_pinned"):
                # the specific inputs of the recorded known findings are exercised on every run, so
                # that each finding is reported (KNOWN-FINDING) while it exists and vanishes when fixed
                kf = os.path.join(os.path.dirname(os.path.abspath(__file__)), "known_findings.json")
                if os.path.exists(kf):
                    with open(kf) as fh:
                        entries = json.load(fh).get("findings", [])
                    for e in entries:
                        if e.get("property") == prop and e.get("status") == "known" and e.get("pinned"):
                            faulthandler.dump_traceback_later(float(cfg.get("per_seed_s", 300)), exit=True)
                            res = mod.run_pinned(e["pinned"], dict(ctx, role=0))
                            faulthandler.cancel_dump_traceback_later()
                            res["seed"] = -1
                            res["role"] = 0
                            _emit(f, res)
            for i, role in work:
                if _perf() - t0 > float(cfg["soft_s"]):
                    break
                seed = base * 10_000_000 + i
                faulthandler.dump_traceback_later(float(cfg.get("per_seed_s", 300)), exit=True)
                ts = _perf()
                res = mod.run_seed(seed, dict(ctx, role=role, want_sample=(done < 3 and role == 0)))
                faulthandler.cancel_dump_traceback_later()
                res["seed"] = seed
                res["role"] = role
                res["wall"] = _perf() - ts
                _emit(f, res)
                done += 1
            _emit(f, {"shard_done": shard, "planned": len(work), "done": done,
                      "wall": _perf() - t0})
        except Exception:
            _emit(f, {"harness_error": traceback.format_exc(), "shard": shard})
            return 3
    return 0


if __name__ == "__main__":
    rc = main(sys.argv)
    sys.stdout.flush()
    os._exit(rc)  # skip slow interpreter teardown (numba, pandas); atexit not needed: driver cleans scratch
